//! Simulator core: PRNG, violations, statistics, the seeded run loop, shrinking,
//! replay files, evidence files and known findings (DESIGN §3).
use serde::{de::DeserializeOwned, Deserialize, Serialize};
use serde_json::{json, Value};
use std::cell::RefCell;
use std::collections::{BTreeMap, BTreeSet};
use std::panic::{catch_unwind, AssertUnwindSafe};
use std::sync::atomic::{AtomicUsize, Ordering};
use std::sync::Mutex;
use std::time::Instant;

pub const DEFAULT_SEED: u64 = 20260921;

// ---------------------------------------------------------------- PRNG

#[inline]
pub fn splitmix64(state: &mut u64) -> u64 {
    *state = state.wrapping_add(0x9E3779B97F4A7C15);
    let mut z = *state;
    z = (z ^ (z >> 30)).wrapping_mul(0xBF58476D1CE4E5B9);
    z = (z ^ (z >> 27)).wrapping_mul(0x94D049BB133111EB);
    z ^ (z >> 31)
}

pub fn fnv(s: &str) -> u64 {
    let mut h: u64 = 0xcbf29ce484222325;
    for b in s.bytes() {
        h ^= b as u64;
        h = h.wrapping_mul(0x100000001b3);
    }
    h
}

/// Per-run seed: a pure function of (VERIF_SEED, engine/focus label, run index).
pub fn run_seed(base: u64, label: &str, index: u64) -> u64 {
    let mut s = base ^ fnv(label).rotate_left(17) ^ index.wrapping_mul(0xD1342543DE82EF95);
    let a = splitmix64(&mut s);
    let b = splitmix64(&mut s);
    a ^ b.rotate_left(32)
}

/// xoshiro256** — written here so that no dependency can change the stream.
#[derive(Clone, Debug)]
pub struct Rng {
    s: [u64; 4],
}

impl Rng {
    pub fn new(seed: u64) -> Self {
        let mut sm = seed;
        let s = [
            splitmix64(&mut sm),
            splitmix64(&mut sm),
            splitmix64(&mut sm),
            splitmix64(&mut sm),
        ];
        Rng { s }
    }
    #[inline]
    pub fn next_u64(&mut self) -> u64 {
        let result = self.s[1].wrapping_mul(5).rotate_left(7).wrapping_mul(9);
        let t = self.s[1] << 17;
        self.s[2] ^= self.s[0];
        self.s[3] ^= self.s[1];
        self.s[1] ^= self.s[2];
        self.s[0] ^= self.s[3];
        self.s[2] ^= t;
        self.s[3] = self.s[3].rotate_left(45);
        result
    }
    /// uniform in 0..n (n > 0)
    #[inline]
    pub fn below(&mut self, n: u64) -> u64 {
        debug_assert!(n > 0);
        ((self.next_u64() as u128 * n as u128) >> 64) as u64
    }
    #[inline]
    pub fn range(&mut self, lo: u64, hi_incl: u64) -> u64 {
        lo + self.below(hi_incl - lo + 1)
    }
    #[inline]
    pub fn chance(&mut self, num: u64, den: u64) -> bool {
        self.below(den) < num
    }
    #[inline]
    pub fn bool(&mut self) -> bool {
        self.next_u64() & 1 == 1
    }
    pub fn pick<'a, T>(&mut self, xs: &'a [T]) -> &'a T {
        &xs[self.below(xs.len() as u64) as usize]
    }
    /// weighted pick: returns index
    pub fn weighted(&mut self, w: &[u32]) -> usize {
        let total: u64 = w.iter().map(|x| *x as u64).sum();
        let mut r = self.below(total.max(1));
        for (i, x) in w.iter().enumerate() {
            if r < *x as u64 {
                return i;
            }
            r -= *x as u64;
        }
        w.len() - 1
    }
    pub fn bytes(&mut self, n: usize) -> Vec<u8> {
        let mut v = Vec::with_capacity(n);
        while v.len() < n {
            let x = self.next_u64().to_le_bytes();
            let take = (n - v.len()).min(8);
            v.extend_from_slice(&x[..take]);
        }
        v
    }
}

// ---------------------------------------------------------------- violations

#[derive(Clone, Debug, Serialize, Deserialize, PartialEq, Eq)]
pub struct Violation {
    pub property: String,
    /// e.g. "C06.revert-restores"
    pub oracle: String,
    /// the narrow facts that identify the defect class (used for known findings and
    /// for "same violation" during shrinking)
    pub signature: BTreeMap<String, String>,
    pub message: String,
}

impl Violation {
    pub fn new(property: &str, oracle: &str, sig: &[(&str, String)], message: String) -> Self {
        Violation {
            property: property.to_string(),
            oracle: oracle.to_string(),
            signature: sig.iter().map(|(k, v)| (k.to_string(), v.clone())).collect(),
            message,
        }
    }
    pub fn same_class(&self, o: &Violation) -> bool {
        self.property == o.property && self.oracle == o.oracle && self.signature == o.signature
    }
    pub fn class_key(&self) -> String {
        format!("{}|{}|{:?}", self.property, self.oracle, self.signature)
    }
}

// ---------------------------------------------------------------- stats

/// Counters and reach measures of one run or of a folded batch.
#[derive(Clone, Debug, Default)]
pub struct Stats {
    pub counters: BTreeMap<String, u64>,
    /// fingerprints of distinct non-trivial cases (engine-defined rule)
    pub fingerprints: BTreeSet<u64>,
    pub samples: Vec<Value>,
}

impl Stats {
    #[inline]
    pub fn inc(&mut self, k: &str) {
        self.add(k, 1)
    }
    #[inline]
    pub fn add(&mut self, k: &str, n: u64) {
        if let Some(c) = self.counters.get_mut(k) {
            *c += n;
        } else {
            self.counters.insert(k.to_string(), n);
        }
    }
    pub fn get(&self, k: &str) -> u64 {
        self.counters.get(k).copied().unwrap_or(0)
    }
    pub fn fingerprint(&mut self, h: u64) {
        self.fingerprints.insert(h);
    }
    pub fn merge(&mut self, o: Stats, max_samples: usize) {
        for (k, v) in o.counters {
            *self.counters.entry(k).or_insert(0) += v;
        }
        self.fingerprints.extend(o.fingerprints);
        for s in o.samples {
            if self.samples.len() < max_samples {
                self.samples.push(s);
            }
        }
    }
}

pub struct Hasher64(pub u64);
impl Hasher64 {
    pub fn new() -> Self {
        Hasher64(0xcbf29ce484222325)
    }
    #[inline]
    pub fn u(&mut self, x: u64) -> &mut Self {
        let mut s = self.0 ^ x;
        self.0 = splitmix64(&mut s);
        self
    }
    pub fn s(&mut self, x: &str) -> &mut Self {
        self.u(fnv(x))
    }
    pub fn b(&mut self, x: &[u8]) -> &mut Self {
        let mut h: u64 = 0xcbf29ce484222325;
        for b in x {
            h ^= *b as u64;
            h = h.wrapping_mul(0x100000001b3);
        }
        self.u(h)
    }
    pub fn finish(&self) -> u64 {
        self.0
    }
}

// ---------------------------------------------------------------- engine trait

pub trait Engine: Sync {
    type Case: Serialize + DeserializeOwned + Clone + Send;
    /// label that selects the seed stream (engine + focus)
    fn label(&self) -> String;
    /// Draw one fully materialised case. Everything the run will do is in the case.
    fn generate(&self, rng: &mut Rng) -> Self::Case;
    /// Execute a case deterministically. Must not draw randomness.
    fn execute(&self, case: &Self::Case, stats: &mut Stats) -> Vec<Violation>;
    /// Simpler variants of a failing case (tried in order).
    fn shrink(&self, case: &Self::Case) -> Vec<Self::Case>;
    /// Facts about the case that identify a panic more narrowly than its location (added to
    /// the signature of the `C25.no-panic` violation); default: none.
    fn panic_facts(&self, _case: &Self::Case) -> Vec<(String, String)> {
        Vec::new()
    }
}

/// Generic list shrinking helper: candidates removing chunks, then single elements.
pub fn shrink_vec<T: Clone>(v: &[T]) -> Vec<Vec<T>> {
    let mut out = Vec::new();
    let n = v.len();
    if n == 0 {
        return out;
    }
    let mut chunk = n / 2;
    while chunk >= 2 {
        let mut start = 0;
        while start < n {
            let end = (start + chunk).min(n);
            let mut c = v[..start].to_vec();
            c.extend_from_slice(&v[end..]);
            out.push(c);
            start += chunk;
        }
        chunk /= 2;
    }
    for i in (0..n).rev() {
        let mut c = v.to_vec();
        c.remove(i);
        out.push(c);
    }
    out
}

// ---------------------------------------------------------------- panic capture

thread_local! {
    static LAST_PANIC: RefCell<Option<(String, String)>> = RefCell::new(None);
    static IN_RUN: RefCell<bool> = RefCell::new(false);
}

pub fn install_panic_hook() {
    let default = std::panic::take_hook();
    std::panic::set_hook(Box::new(move |info| {
        let in_run = IN_RUN.with(|r| *r.borrow());
        if in_run {
            let loc = info
                .location()
                .map(|l| format!("{}:{}", l.file(), l.line()))
                .unwrap_or_default();
            let msg = if let Some(s) = info.payload().downcast_ref::<&str>() {
                s.to_string()
            } else if let Some(s) = info.payload().downcast_ref::<String>() {
                s.clone()
            } else {
                "<non-string panic>".to_string()
            };
            LAST_PANIC.with(|p| *p.borrow_mut() = Some((loc, msg)));
        } else {
            default(info);
        }
    }));
}

pub enum RunOutcome {
    Done(Vec<Violation>),
    /// panic inside the code under test (location is under /repo)
    SutPanic { location: String, message: String },
    /// panic inside the harness: a harness error, never a violation
    HarnessPanic { location: String, message: String },
}

pub fn guarded<F: FnOnce() -> Vec<Violation>>(f: F) -> RunOutcome {
    IN_RUN.with(|r| *r.borrow_mut() = true);
    LAST_PANIC.with(|p| *p.borrow_mut() = None);
    let r = catch_unwind(AssertUnwindSafe(f));
    IN_RUN.with(|r| *r.borrow_mut() = false);
    match r {
        Ok(v) => RunOutcome::Done(v),
        Err(_) => {
            let (location, message) = LAST_PANIC
                .with(|p| p.borrow_mut().take())
                .unwrap_or_default();
            // the simulator lives under /verif; everything else (revm, its deps) is SUT
            if location.contains("/verif/") || location.starts_with("src/") {
                RunOutcome::HarnessPanic { location, message }
            } else {
                RunOutcome::SutPanic { location, message }
            }
        }
    }
}

fn panic_violation(location: &str, message: &str) -> Violation {
    // strip line number churn from the class: file only + first words of message
    let file = location.rsplit_once(':').map(|x| x.0).unwrap_or(location);
    let file = file.rsplit("/crates/").next().unwrap_or(file);
    let short: String = message.chars().take(60).collect();
    Violation::new(
        "C25",
        "C25.no-panic",
        &[("file", file.to_string()), ("msg", short)],
        format!("panic at {location}: {message}"),
    )
}

/// Execute a case with panic capture; SUT panics become C25 violations.
pub fn execute_guarded<E: Engine>(
    engine: &E,
    case: &E::Case,
    stats: &mut Stats,
) -> Result<Vec<Violation>, String> {
    match guarded(|| engine.execute(case, stats)) {
        RunOutcome::Done(v) => Ok(v),
        RunOutcome::SutPanic { location, message } => {
            stats.inc("panics.sut");
            let mut v = panic_violation(&location, &message);
            for (k, val) in engine.panic_facts(case) {
                v.signature.insert(k, val);
            }
            Ok(vec![v])
        }
        RunOutcome::HarnessPanic { location, message } => {
            Err(format!("harness panic at {location}: {message}"))
        }
    }
}

// ---------------------------------------------------------------- known findings

#[derive(Clone, Debug, Serialize, Deserialize)]
pub struct Finding {
    pub id: String,
    pub property: String,
    pub status: String, // "known" | "fixed"
    pub oracle: String,
    pub signature: BTreeMap<String, String>,
    pub what: String,
    #[serde(default)]
    pub replay: Option<String>,
    #[serde(default)]
    pub fix_commit: Option<String>,
}

#[derive(Clone, Debug, Default, Serialize, Deserialize)]
pub struct Findings {
    pub findings: Vec<Finding>,
}

impl Findings {
    pub fn load() -> Findings {
        let path = verif_root().join("known_findings.json");
        match std::fs::read_to_string(&path) {
            Ok(s) => serde_json::from_str(&s).unwrap_or_else(|e| {
                eprintln!("HARNESS-ERROR: cannot parse {}: {e}", path.display());
                std::process::exit(2)
            }),
            Err(_) => Findings::default(),
        }
    }
    /// a violation is known iff an entry with status "known" matches property, oracle and
    /// every key of the entry's signature
    pub fn matches(&self, v: &Violation) -> Option<&Finding> {
        self.findings.iter().find(|f| {
            f.status == "known"
                && f.property == v.property
                && f.oracle == v.oracle
                && f.signature.iter().all(|(k, val)| v.signature.get(k) == Some(val))
        })
    }
}

pub fn verif_root() -> std::path::PathBuf {
    std::env::var("VERIF_ROOT")
        .map(std::path::PathBuf::from)
        .unwrap_or_else(|_| std::path::PathBuf::from("/verif"))
}

// ---------------------------------------------------------------- run loop

#[derive(Clone, Debug)]
pub struct BatchOpts {
    pub property: String,
    pub seed: u64,
    pub runs: u64,
    pub workers: usize,
    /// only violations of this property are reported (others are counted)
    pub report_all_properties: bool,
    pub max_samples: usize,
}

pub struct BatchResult {
    pub label: String,
    pub runs: u64,
    pub stats: Stats,
    pub wall_s: f64,
    /// (run index, violation) for the property, in index order
    pub violations: Vec<(u64, Violation)>,
    pub other_property_violations: u64,
    pub harness_errors: Vec<String>,
}

/// Run `opts.runs` seeded cases of one engine on a worker pool. Results are folded in
/// run-index order, so the outcome is independent of the number of workers.
pub fn run_batch<E: Engine>(engine: &E, opts: &BatchOpts) -> BatchResult {
    let label = engine.label();
    let t0 = Instant::now();
    let chunk = 16usize;
    let mut stats = Stats::default();
    let mut violations = Vec::new();
    let mut other = 0;
    let mut harness_errors = Vec::new();
    // runs are executed in segments and each segment is folded before the next starts, so
    // that the per-run records of a 30M-run batch never sit in memory together
    const SEGMENT: u64 = 1 << 20;
    let mut seg_start = 0u64;
    while seg_start < opts.runs {
    let seg_end = (seg_start + SEGMENT).min(opts.runs);
    let next = AtomicUsize::new(seg_start as usize);
    let results: Mutex<Vec<(u64, Stats, Result<Vec<Violation>, String>)>> = Mutex::new(Vec::new());
    std::thread::scope(|sc| {
        for _ in 0..opts.workers.max(1) {
            sc.spawn(|| {
                let mut local = Vec::new();
                loop {
                    let start = next.fetch_add(chunk, Ordering::Relaxed) as u64;
                    if start >= seg_end {
                        break;
                    }
                    let end = (start + chunk as u64).min(seg_end);
                    for i in start..end {
                        let mut rng = Rng::new(run_seed(opts.seed, &label, i));
                        let mut stats = Stats::default();
                        let case = match catch_unwind(AssertUnwindSafe(|| engine.generate(&mut rng))) {
                            Ok(c) => c,
                            Err(_) => {
                                local.push((i, stats, Err(format!("generator panicked at run {i}"))));
                                continue;
                            }
                        };
                        let r = execute_guarded(engine, &case, &mut stats);
                        // keep memory bounded: drop per-run samples beyond 2
                        stats.samples.truncate(2);
                        local.push((i, stats, r));
                    }
                    if local.len() >= 256 {
                        results.lock().unwrap().append(&mut local);
                    }
                }
                results.lock().unwrap().append(&mut local);
            });
        }
    });
    let mut all = results.into_inner().unwrap();
    all.sort_by_key(|x| x.0);
    for (i, s, r) in all {
        stats.merge(s, opts.max_samples);
        match r {
            Ok(vs) => {
                for v in vs {
                    // a panic inside revm is reported by whichever check meets it (it is a C25
                    // violation wherever it happens; a twin that panics has also "changed execution")
                    if opts.report_all_properties || v.property == opts.property || v.oracle == "C25.no-panic" {
                        violations.push((i, v));
                    } else {
                        other += 1;
                        stats.inc(&format!("other_property_violations.{}", v.property));
                    }
                }
            }
            Err(e) => harness_errors.push(e),
        }
    }
    seg_start = seg_end;
    }
    BatchResult {
        label,
        runs: opts.runs,
        stats,
        wall_s: t0.elapsed().as_secs_f64(),
        violations,
        other_property_violations: other,
        harness_errors,
    }
}

// ---------------------------------------------------------------- shrinking + replay files

#[derive(Serialize, Deserialize)]
pub struct ReplayFile {
    pub format: u32,
    pub engine: String,
    pub property: String,
    pub oracle: String,
    pub seed: u64,
    pub run: u64,
    pub violation: Violation,
    pub shrink_steps: u64,
    pub case: Value,
}

/// Greedy shrinking: keep a candidate iff it still fails with the same violation class.
pub fn shrink_case<E: Engine>(engine: &E, case: &E::Case, target: &Violation) -> (E::Case, Violation, u64) {
    let mut cur = case.clone();
    let mut cur_v = target.clone();
    let mut steps = 0u64;
    let t0 = Instant::now();
    let mut budget = 4000u32;
    'outer: loop {
        let cands = engine.shrink(&cur);
        for c in cands {
            if budget == 0 || t0.elapsed().as_secs() > 60 {
                break 'outer;
            }
            budget -= 1;
            let mut st = Stats::default();
            if let Ok(vs) = execute_guarded(engine, &c, &mut st) {
                if let Some(v) = vs.into_iter().find(|v| v.same_class(target)) {
                    cur = c;
                    cur_v = v;
                    steps += 1;
                    continue 'outer;
                }
            }
        }
        break;
    }
    (cur, cur_v, steps)
}

pub fn write_replay<E: Engine>(
    engine: &E,
    property: &str,
    seed: u64,
    run: u64,
    case: &E::Case,
    v: &Violation,
    shrink_steps: u64,
) -> String {
    let dir = verif_root().join("replays").join(property);
    let _ = std::fs::create_dir_all(&dir);
    let path = dir.join(format!("{}-{}-{}.json", engine.label().replace('/', "_"), seed, run));
    let rf = ReplayFile {
        format: 1,
        engine: engine.label(),
        property: property.to_string(),
        oracle: v.oracle.clone(),
        seed,
        run,
        violation: v.clone(),
        shrink_steps,
        case: serde_json::to_value(case).expect("case serialises"),
    };
    std::fs::write(&path, serde_json::to_string_pretty(&rf).unwrap()).expect("write replay");
    path.display().to_string()
}

/// Re-execute a replay file with this engine. Returns the violations observed.
pub fn replay_with<E: Engine>(engine: &E, rf: &ReplayFile) -> Result<Vec<Violation>, String> {
    let case: E::Case =
        serde_json::from_value(rf.case.clone()).map_err(|e| format!("cannot decode case: {e}"))?;
    let mut st = Stats::default();
    execute_guarded(engine, &case, &mut st)
}

// ---------------------------------------------------------------- check driver

/// Accumulates the batches of one property check and writes its evidence.
pub struct CheckReport {
    pub property: String,
    pub tier: String,
    pub seed: u64,
    pub level: String,
    pub rule: String,
    pub assumptions: Vec<String>,
    pub real_components: Vec<String>,
    pub stub_components: Vec<String>,
    pub batches: Vec<Value>,
    pub stats: Stats,
    pub evaluations: u64,
    pub violations_reported: u64,
    pub known_findings_hit: BTreeMap<String, (String, u64)>,
    pub harness_errors: Vec<String>,
    pub t0: Instant,
    pub extra: BTreeMap<String, Value>,
}

impl CheckReport {
    pub fn new(property: &str, tier: &str, seed: u64) -> Self {
        CheckReport {
            property: property.to_string(),
            tier: tier.to_string(),
            seed,
            level: "exploration".into(),
            rule: String::new(),
            assumptions: vec![],
            real_components: vec![],
            stub_components: vec![],
            batches: vec![],
            stats: Stats::default(),
            evaluations: 0,
            violations_reported: 0,
            known_findings_hit: BTreeMap::new(),
            harness_errors: vec![],
            t0: Instant::now(),
            extra: BTreeMap::new(),
        }
    }

    /// Run one engine batch, fold it into the report, shrink + report violations.
    pub fn run_engine<E: Engine>(&mut self, engine: &E, runs: u64, findings: &Findings) {
        let workers = std::env::var("VERIF_WORKERS")
            .ok()
            .and_then(|s| s.parse().ok())
            .unwrap_or_else(|| std::thread::available_parallelism().map(|n| n.get()).unwrap_or(8));
        let opts = BatchOpts {
            property: self.property.clone(),
            seed: self.seed,
            runs,
            workers,
            report_all_properties: std::env::var("VERIF_REPORT_ALL").is_ok(),
            max_samples: 3,
        };
        let res = run_batch(engine, &opts);
        self.evaluations += res.runs;
        self.batches.push(json!({
            "engine": res.label,
            "runs": res.runs,
            "wall_s": (res.wall_s * 1000.0).round() / 1000.0,
            "runs_per_hour": if res.wall_s > 0.0 { (res.runs as f64 / res.wall_s * 3600.0) as u64 } else { 0 },
            "distinct_nontrivial": res.stats.fingerprints.len(),
            "violations_of_other_properties_seen": res.other_property_violations,
        }));
        // prefix the batch's fingerprints with the label so engines do not collide
        let mut st = res.stats;
        let lab = fnv(&res.label);
        st.fingerprints = st.fingerprints.iter().map(|f| f ^ lab).collect();
        self.stats.merge(st, 6);
        self.harness_errors.extend(res.harness_errors);

        // violations: group by class, in run order
        let mut seen_class: BTreeSet<String> = BTreeSet::new();
        let mut reported = 0;
        for (run, v) in &res.violations {
            let key = v.class_key();
            if let Some(f) = findings.matches(v) {
                let e = self
                    .known_findings_hit
                    .entry(f.id.clone())
                    .or_insert((f.what.clone(), 0));
                e.1 += 1;
                continue;
            }
            if !seen_class.insert(key) {
                continue;
            }
            if reported >= 3 {
                continue;
            }
            reported += 1;
            self.violations_reported += 1;
            // regenerate the case, shrink, write replay, verify replay
            let mut rng = Rng::new(run_seed(self.seed, &engine.label(), *run));
            let case = engine.generate(&mut rng);
            let (small, v2, steps) = shrink_case(engine, &case, v);
            let path = write_replay(engine, &self.property, self.seed, *run, &small, &v2, steps);
            // replay determinism check in-process (fresh engine state): must reproduce
            let mut st = Stats::default();
            let again = execute_guarded(engine, &small, &mut st).unwrap_or_default();
            if !again.iter().any(|x| x.same_class(&v2)) {
                self.harness_errors
                    .push(format!("replay of {path} did not reproduce (nondeterminism?)"));
            }
            println!("VIOLATION property={} replay={}", self.property, path);
            println!("  oracle={} run={} signature={:?}", v2.oracle, run, v2.signature);
            println!("  {}", v2.message);
        }
    }

    pub fn finish(mut self) -> i32 {
        for (id, (what, n)) in &self.known_findings_hit {
            println!("KNOWN-FINDING: property={} {} [{}; hit {} times]", self.property, what, id, n);
        }
        let wall = self.t0.elapsed().as_secs_f64();
        let distinct = self.stats.fingerprints.len() as u64;
        let mut coverage = serde_json::Map::new();
        coverage.insert("evaluations".into(), json!(self.evaluations));
        coverage.insert("distinct_nontrivial".into(), json!(distinct));
        coverage.insert("rule".into(), json!(self.rule));
        if self.stats.samples.is_empty() {
            self.stats.samples.push(json!("no sample recorded"));
        }
        coverage.insert("samples".into(), Value::Array(self.stats.samples.clone()));
        coverage.insert("batches".into(), Value::Array(self.batches.clone()));
        coverage.insert(
            "runs_per_hour".into(),
            json!(if wall > 0.0 { (self.evaluations as f64 / wall * 3600.0) as u64 } else { 0 }),
        );
        // split counters into groups by prefix
        let mut groups: BTreeMap<String, serde_json::Map<String, Value>> = BTreeMap::new();
        for (k, v) in &self.stats.counters {
            let (g, rest) = k.split_once('.').unwrap_or(("counters", k));
            groups.entry(g.to_string()).or_default().insert(rest.to_string(), json!(v));
        }
        let zero_probes: Vec<String> = groups
            .get("probe")
            .map(|m| m.iter().filter(|(_, v)| v.as_u64() == Some(0)).map(|(k, _)| k.clone()).collect())
            .unwrap_or_default();
        for (g, m) in groups {
            coverage.insert(g, Value::Object(m));
        }
        coverage.insert("probes_at_zero".into(), json!(zero_probes));
        coverage.insert("components_real".into(), json!(self.real_components));
        coverage.insert("components_stub".into(), json!(self.stub_components));
        coverage.insert(
            "known_findings_hit".into(),
            json!(self
                .known_findings_hit
                .iter()
                .map(|(k, v)| json!({"id": k, "what": v.0, "hits": v.1}))
                .collect::<Vec<_>>()),
        );
        for (k, v) in &self.extra {
            coverage.insert(k.clone(), v.clone());
        }
        let ev = json!({
            "property_id": self.property,
            "tier": self.tier,
            "seed": self.seed,
            "level": self.level,
            "coverage": Value::Object(coverage),
            "assumptions": self.assumptions,
            "wall_s": (wall * 1000.0).round() / 1000.0,
            "violations": self.violations_reported,
        });
        let dir = verif_root().join("evidence");
        let _ = std::fs::create_dir_all(&dir);
        let path = dir.join(format!("{}.json", self.property));
        if let Err(e) = std::fs::write(&path, serde_json::to_string_pretty(&ev).unwrap()) {
            eprintln!("HARNESS-ERROR: cannot write evidence {}: {e}", path.display());
            return 2;
        }
        if !zero_probes.is_empty() {
            println!("note: probes at zero: {:?}", zero_probes);
        }
        println!(
            "{} {}: {} runs, {} distinct non-trivial, {} violation(s), {} known finding(s), {:.1}s",
            self.property,
            self.tier,
            self.evaluations,
            distinct,
            self.violations_reported,
            self.known_findings_hit.len(),
            wall
        );
        if !self.harness_errors.is_empty() {
            for e in self.harness_errors.iter().take(5) {
                eprintln!("HARNESS-ERROR: {e}");
            }
            return 2;
        }
        if self.violations_reported > 0 {
            1
        } else {
            0
        }
    }
}
