mod core;
mod disk;
mod e2_journal;
mod asm;
mod sys;
mod monitor;
mod model;
mod world;
mod e1_tx;
mod e1_twin;
mod e1_valid;
mod e1_collide;
mod checks;

fn main() {
    core::install_panic_hook();
    let args: Vec<String> = std::env::args().collect();
    std::process::exit(checks::main(&args[1..]));
}
mod e3_state;
mod e4_adt;
/// the interpreter crate under the name the ADT/interpreter engines use (the Miri crate
/// binds it to `revm_interpreter` directly)
pub use revm::interpreter as itp;
mod e5_interp;
mod e3_wrap;
#[cfg(feature = "optimism")]
mod op_sim;
