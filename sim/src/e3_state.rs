//! E3 `statesim`: the storage pipeline State / CacheState / TransitionState / BundleState
//! over a simulated disk, driven by real EVM output (DESIGN §4 E3). Serves C15 - C19.
//!
//! The scheduler decides merge points (one per transition group), flush points
//! (take_bundle + changeset applied to the durable disk), crashes (everything volatile
//! is dropped, the State is rebuilt over the durable disk and the lost groups are
//! re-executed), the split point for extend/prestate and database faults.
use crate::asm::GenCtx;
use crate::core::*;
use crate::disk::*;
use crate::sys::*;
use crate::world::*;
use revm::db::states::bundle_state::{BundleRetention, OriginalValuesKnown};
use revm::db::states::{PlainStateReverts, PlainStorageRevert, StateChangeset};
use revm::db::{BundleState, State};
use revm::primitives::{keccak256, AccountInfo, Address, Bytes, ExecutionResult, SpecId, B256, KECCAK_EMPTY, U256};
use revm::Database;
use serde::{Deserialize, Serialize};
use serde_json::json;
use std::collections::BTreeMap;

#[derive(Clone, Debug, Serialize, Deserialize, Default)]
pub struct Group {
    pub txs: Vec<TxSpec>,
    #[serde(default)]
    pub increments: Vec<(Address, u128)>,
    #[serde(default)]
    pub drains: Vec<Address>,
    /// after this group: take_bundle, apply its changeset to the durable disk
    #[serde(default)]
    pub flush_after: bool,
    /// after this group: drop Evm + State, rebuild over the durable disk, re-execute
    #[serde(default)]
    pub crash_after: bool,
    /// database fault armed while this group's balance increments run (index of db call)
    #[serde(default)]
    pub fault_in_increments: Option<u64>,
    /// database fault armed for transaction `0` of this group (then the tx is retried)
    #[serde(default)]
    pub fault_in_tx: Option<u64>,
}

#[derive(Clone, Debug, Serialize, Deserialize)]
pub struct StateCase {
    pub world: World,
    pub groups: Vec<Group>,
    /// split point inside the last segment for extend / prestate (groups before it form A)
    pub split: usize,
    pub take_m: usize,
}

pub struct StateSim {
    pub focus: String,
}

// ---------------------------------------------------------------- plain tables

/// Plain state as two tables (like a node's PlainAccountState / PlainStorageState).
#[derive(Clone, Debug, Default, PartialEq, Eq)]
pub struct Plain {
    pub infos: BTreeMap<Address, (U256, u64, B256)>,
    pub storage: BTreeMap<Address, BTreeMap<U256, U256>>,
    pub codes: BTreeMap<B256, Bytes>,
}

impl Plain {
    pub fn from_disk(d: &SimDisk) -> Plain {
        let mut p = Plain::default();
        for (a, acc) in &d.accounts {
            p.infos.insert(*a, (acc.balance, acc.nonce, acc.code_hash()));
            if !acc.code.is_empty() {
                p.codes.insert(acc.code_hash(), acc.code.clone());
            }
            if !acc.storage.is_empty() {
                p.storage.insert(*a, acc.storage.clone());
            }
        }
        p
    }
    /// Back to a SimDisk, normalised: zero slots dropped; with state clear an empty account
    /// without storage is the same as no account.
    pub fn to_disk(&self, salt: u64, state_clear: bool) -> Result<SimDisk, String> {
        let mut d = SimDisk { hash_salt: salt, ..Default::default() };
        let mut addrs: Vec<Address> = self.infos.keys().cloned().collect();
        addrs.extend(self.storage.keys().cloned());
        addrs.sort();
        addrs.dedup();
        for a in addrs {
            let (bal, nonce, hash) = self.infos.get(&a).cloned().unwrap_or((U256::ZERO, 0, KECCAK_EMPTY));
            let code = if hash == KECCAK_EMPTY || hash == B256::ZERO {
                Bytes::new()
            } else {
                self.codes.get(&hash).cloned().ok_or_else(|| format!("code {hash} of {a} is in no changeset and not on disk"))?
            };
            let storage: BTreeMap<U256, U256> = self.storage.get(&a).map(|s| s.iter().filter(|(_, v)| !v.is_zero()).map(|(k, v)| (*k, *v)).collect()).unwrap_or_default();
            let acc = DiskAccount { balance: bal, nonce, code, storage };
            if state_clear && acc.is_empty() && acc.storage.is_empty() {
                continue;
            }
            if !self.infos.contains_key(&a) && acc.storage.is_empty() {
                continue;
            }
            d.accounts.insert(a, acc);
        }
        Ok(d)
    }
}

pub fn normalize(d: &SimDisk, state_clear: bool) -> SimDisk {
    Plain::from_disk(d).to_disk(d.hash_salt, state_clear).expect("disk is self-contained")
}

fn info_tuple(i: &AccountInfo) -> (U256, u64, B256) {
    (i.balance, i.nonce, if i.code_hash == B256::ZERO { KECCAK_EMPTY } else { i.code_hash })
}

/// Apply a plain-state changeset (accounts, storage with wipe flags, new contracts).
pub fn apply_changeset(p: &mut Plain, cs: &StateChangeset) {
    for (h, code) in &cs.contracts {
        p.codes.insert(*h, code.original_bytes());
    }
    for (a, info) in &cs.accounts {
        match info {
            Some(i) => {
                if let Some(c) = &i.code {
                    if !c.is_empty() {
                        p.codes.insert(i.code_hash, c.original_bytes());
                    }
                }
                p.infos.insert(*a, info_tuple(i));
            }
            None => {
                p.infos.remove(a);
            }
        }
    }
    for s in &cs.storage {
        if s.wipe_storage {
            p.storage.remove(&s.address);
        }
        let e = p.storage.entry(s.address).or_default();
        for (k, v) in &s.storage {
            if v.is_zero() {
                e.remove(k);
            } else {
                e.insert(*k, *v);
            }
        }
    }
}

/// Undo one transition group: S_k -> S_{k-1}. `pre` is the plain state the bundle was
/// built on (slots not listed of a wiped account come back from there).
pub fn undo_group(p: &mut Plain, pre: &Plain, accounts: &[(Address, Option<AccountInfo>)], storage: &[PlainStorageRevert]) {
    for s in storage {
        if s.wiped {
            match pre.storage.get(&s.address) {
                Some(old) => {
                    p.storage.insert(s.address, old.clone());
                }
                None => {
                    p.storage.remove(&s.address);
                }
            }
        }
        let e = p.storage.entry(s.address).or_default();
        for (k, r) in &s.storage_revert {
            // `RevertToSlot::Destroyed` under a wiped revert names no value: "previous values
            // can be found in database or it can be zero" (reverts.rs) - the slot reads as
            // its pre-bundle value, which the wipe handling above has just restored. Without
            // the wipe flag it means the slot did not exist before (zero).
            if s.wiped && matches!(r, revm::db::RevertToSlot::Destroyed) {
                continue;
            }
            let v = r.to_previous_value();
            if v.is_zero() {
                e.remove(k);
            } else {
                e.insert(*k, v);
            }
        }
    }
    for (a, info) in accounts {
        match info {
            Some(i) => {
                if let Some(c) = &i.code {
                    if !c.is_empty() {
                        p.codes.insert(i.code_hash, c.original_bytes());
                    }
                }
                p.infos.insert(*a, info_tuple(i));
            }
            None => {
                p.infos.remove(a);
                p.storage.remove(a);
            }
        }
    }
}

fn disk_diff(a: &SimDisk, b: &SimDisk) -> String {
    for k in a.accounts.keys().chain(b.accounts.keys()) {
        if a.accounts.get(k) != b.accounts.get(k) {
            let fmt = |x: Option<&DiskAccount>| match x {
                None => "absent".to_string(),
                Some(d) => format!("bal={} nonce={} code={}B storage={:?}", d.balance, d.nonce, d.code.len(), d.storage),
            };
            return format!("{k}: expected {} got {}", fmt(a.accounts.get(k)), fmt(b.accounts.get(k)));
        }
    }
    "equal".into()
}

fn first_diff(a: &SimDisk, b: &SimDisk) -> Option<Address> {
    a.accounts.keys().chain(b.accounts.keys()).find(|k| a.accounts.get(*k) != b.accounts.get(*k)).cloned()
}

/// Class of the first difference. The suffix marks the account kind behind known finding
/// D12: an account without code and with nonce 0 that nevertheless has storage (contracts
/// created before Spurious Dragon with empty runtime code; EIP-7610 accounts).
fn diff_kind(a: &SimDisk, b: &SimDisk) -> String {
    let exotic = |x: Option<&DiskAccount>| x.map(|d| d.nonce == 0 && d.code.is_empty() && !d.storage.is_empty()).unwrap_or(false);
    for k in a.accounts.keys().chain(b.accounts.keys()) {
        let (x, y) = (a.accounts.get(k), b.accounts.get(k));
        let base = match (x, y) {
            (Some(x), Some(y)) if x != y => {
                if x.storage != y.storage {
                    "storage"
                } else if x.code != y.code {
                    "code"
                } else {
                    "info"
                }
            }
            (Some(_), None) => "account-missing",
            (None, Some(_)) => "account-extra",
            _ => continue,
        };
        return if exotic(x) || exotic(y) { format!("{base}/codeless-nonce0-account-with-storage") } else { base.to_string() };
    }
    "none".into()
}

// ---------------------------------------------------------------- engine

impl Engine for StateSim {
    type Case = StateCase;
    fn label(&self) -> String {
        format!("statesim/{}", self.focus)
    }

    fn generate(&self, rng: &mut Rng) -> StateCase {
        let mut k = WorldKnobs::new(InspKind::None);
        k.stacks = vec![StackKind::StateBundle];
        k.lifecycle_pct = *rng.pick(&[0u64, 30, 60, 90]);
        k.max_contracts = 4;
        k.tune = |c: &mut GenCtx, r: &mut Rng| {
            c.w_storage = 18;
            c.w_create = 10;
            c.w_selfdestruct = 8;
            c.w_call = 14;
            c.w_value = 40;
            c.w_term = 2;
            c.w_raw = 0;
            c.guard_pct = *r.pick(&[30u64, 60, 90]);
        };
        let world = gen_world(rng, &k);
        let n = rng.range(1, 6) as usize;
        let mut groups = Vec::new();
        let fault_run = rng.chance(1, 4);
        let mut last: Option<TxSpec> = None;
        // lifecycle-heavy worlds get longer groups: touch / destroy / re-create of the same
        // address inside one group needs three or more transactions in it
        let max_txs = if k.lifecycle_pct >= 60 && rng.bool() { 6 } else { 3 };
        for _ in 0..n {
            let mut g = Group::default();
            for _ in 0..rng.range(0, max_txs) {
                let tx = match (&last, rng.chance(1, 3)) {
                    (Some(t), true) => t.clone(),
                    _ => gen_tx(rng, &world),
                };
                // (EIP-7702 authorization lists stay: a delegation changes the code of an
                // existing account without creating it - a transition kind of its own)
                last = Some(tx.clone());
                g.txs.push(tx);
            }
            if rng.chance(1, 4) {
                for _ in 0..rng.range(1, 3) {
                    g.increments.push((*rng.pick(&world.universe), if rng.chance(1, 5) { 0 } else { rng.range(1, 1000) as u128 }));
                }
            }
            if rng.chance(1, 10) {
                g.drains.push(*rng.pick(&world.universe));
            }
            g.flush_after = rng.chance(1, 5);
            g.crash_after = rng.chance(1, 8);
            if fault_run {
                if !g.increments.is_empty() && rng.bool() {
                    g.fault_in_increments = Some(rng.below(3));
                }
                if !g.txs.is_empty() && rng.chance(1, 2) {
                    g.fault_in_tx = Some(rng.below(12));
                }
            }
            groups.push(g);
        }
        StateCase { world, split: rng.below(n as u64 + 1) as usize, take_m: rng.below(n as u64 + 1) as usize, groups }
    }

    fn execute(&self, case: &StateCase, stats: &mut Stats) -> Vec<Violation> {
        run_state_case(case, stats)
    }

    fn shrink(&self, case: &StateCase) -> Vec<StateCase> {
        let mut out = Vec::new();
        for gs in shrink_vec(&case.groups) {
            if gs.is_empty() {
                continue;
            }
            let mut c = case.clone();
            c.groups = gs;
            c.split = c.split.min(c.groups.len());
            c.take_m = c.take_m.min(c.groups.len());
            out.push(c);
        }
        for (i, g) in case.groups.iter().enumerate() {
            for txs in shrink_vec(&g.txs) {
                let mut c = case.clone();
                c.groups[i].txs = txs;
                out.push(c);
            }
            if !g.increments.is_empty() || !g.drains.is_empty() {
                let mut c = case.clone();
                c.groups[i].increments.clear();
                c.groups[i].drains.clear();
                c.groups[i].fault_in_increments = None;
                out.push(c);
            }
            for f in 0..4 {
                let mut c = case.clone();
                let gg = &mut c.groups[i];
                let had = match f {
                    0 => std::mem::take(&mut gg.flush_after),
                    1 => std::mem::take(&mut gg.crash_after),
                    2 => gg.fault_in_increments.take().is_some(),
                    _ => gg.fault_in_tx.take().is_some(),
                };
                if had {
                    out.push(c);
                }
            }
            for (j, tx) in g.txs.iter().enumerate() {
                if tx.to.is_some() {
                    for b in 0..tx.data.len() {
                        if tx.data[b] != 0 {
                            let mut c = case.clone();
                            let mut d = tx.data.to_vec();
                            d[b] = 0;
                            c.groups[i].txs[j].data = d.into();
                            out.push(c);
                        }
                    }
                }
                if !tx.access_list.is_empty() || !tx.value.is_zero() {
                    let mut c = case.clone();
                    c.groups[i].txs[j].access_list.clear();
                    c.groups[i].txs[j].value = U256::ZERO;
                    out.push(c);
                }
            }
        }
        for (a, acc) in case.world.disk.accounts.iter() {
            if acc.code.len() > 1 && !acc.code.starts_with(&[0xef]) {
                let mut c = case.clone();
                c.world.disk.accounts.get_mut(a).unwrap().code = vec![0x00].into();
                out.push(c);
            }
            if !acc.storage.is_empty() {
                let mut c = case.clone();
                c.world.disk.accounts.get_mut(a).unwrap().storage.clear();
                out.push(c);
            }
        }
        if case.split != 0 {
            let mut c = case.clone();
            c.split = 0;
            out.push(c);
        }
        out
    }
}

fn state_of(sys: &mut Sys) -> &mut State<FaultyDb> {
    match &mut sys.evm().context.evm.db {
        AnyDb::State(s) => s,
        _ => panic!("statesim uses the State stack (harness)"),
    }
}

struct Runner<'a> {
    case: &'a StateCase,
    sc: bool,
    universe: Vec<Address>,
    out: Vec<Violation>,
    /// groups whose increment_balances call failed in the main run (F1)
    failed_increments: std::collections::BTreeSet<usize>,
}

impl<'a> Runner<'a> {
    fn v(&mut self, prop: &str, oracle: &str, sig: &[(&str, String)], msg: String) {
        if self.out.len() < 6 {
            let mut v = Violation::new(prop, oracle, sig, msg);
            // "field/kind" -> field + account_kind
            if let Some(f) = v.signature.get("field").cloned() {
                if let Some((field, kind)) = f.split_once('/') {
                    v.signature.insert("field".into(), field.to_string());
                    v.signature.insert("account_kind".into(), kind.to_string());
                }
            }
            self.out.push(v);
        }
    }

    /// Execute the groups `range` on `sys`. If `reference` is given it is advanced with the
    /// reference applier and a snapshot is pushed after every group. Returns the results.
    #[allow(clippy::too_many_arguments)]
    fn run_groups(&mut self, sys: &mut Sys, range: std::ops::Range<usize>, mut reference: Option<(&mut SimDisk, &mut Vec<SimDisk>)>, faults: bool, check_reads: bool, stats: &mut Stats) -> Vec<String> {
        let mut results = Vec::new();
        for gi in range {
            let g = &self.case.groups[gi];
            for (ti, tx) in g.txs.iter().enumerate() {
                let mut attempts = 0;
                loop {
                    attempts += 1;
                    sys.bottom.disarm();
                    if faults && attempts == 1 && ti == 0 {
                        if let Some(k) = g.fault_in_tx {
                            let mut p = FaultPlan::default();
                            p.at_calls.insert(k);
                            sys.bottom.arm(p);
                        }
                    }
                    let r = sys.transact(tx);
                    sys.bottom.disarm();
                    match r {
                        Ok(rs) => {
                            results.push(format!("{:?}", rs.result));
                            if matches!(rs.result, ExecutionResult::Success { .. }) {
                                stats.inc("outcome.success");
                            } else {
                                stats.inc("outcome.revert_or_halt");
                            }
                            if let Some((r, _)) = reference.as_mut() {
                                r.apply_evm_state(&rs.state, self.sc);
                            }
                            // EIP-161: accounts this transaction touched and left empty
                            let touched_empty: Vec<Address> = if self.sc && check_reads {
                                rs.state.iter().filter(|(_, acc)| acc.is_touched() && acc.is_empty() && !acc.is_selfdestructed()).map(|(a, _)| *a).collect()
                            } else {
                                vec![]
                            };
                            sys.commit(rs.state);
                            // ... are removed: the State must not report them as existing any more
                            // (exact, not normalised: "exists but empty" is the wrong answer here)
                            for a in touched_empty {
                                stats.inc("probe.touched_empty_account_committed");
                                if let Ok(Some(i)) = sys.evm().context.evm.db.basic(a) {
                                    self.v("C15", "C15.reads", &[("field", "touched-empty-not-removed".into())], format!("group {gi}: {a} was touched and left empty by a committed transaction (state clearing active) but the State still reports it as existing: {i:?}"));
                                }
                            }
                            break;
                        }
                        Err(o) if o.is_db_err() => {
                            stats.inc("fault.F1_db_error_in_tx");
                            // nothing was committed; the same transaction is retried
                            if attempts > 1 {
                                results.push("db-error-twice".into());
                                break;
                            }
                        }
                        Err(o) => {
                            results.push(o.class());
                            break;
                        }
                    }
                }
            }
            // balance increments / drains through the State API
            if !g.increments.is_empty() && !self.failed_increments.contains(&gi) {
                if faults {
                    if let Some(k) = g.fault_in_increments {
                        let mut p = FaultPlan::default();
                        p.at_calls.insert(k);
                        sys.bottom.arm(p);
                    }
                }
                let r = state_of(sys).increment_balances(g.increments.iter().cloned());
                sys.bottom.disarm();
                match r {
                    Ok(()) => {
                        if let Some((r, _)) = reference.as_mut() {
                            for (a, x) in &g.increments {
                                if *x != 0 {
                                    let e = r.accounts.entry(*a).or_default();
                                    e.balance = e.balance.saturating_add(U256::from(*x));
                                }
                            }
                        }
                        stats.inc("ops.increment_balances");
                    }
                    Err(_) => {
                        // F1: the call failed; the reference is not advanced. A failed call
                        // must not have changed what later reads return.
                        stats.inc("fault.F1_db_error_in_increment_balances");
                        // re-runs of this history (crash recovery, split bundles) skip it too
                        self.failed_increments.insert(gi);
                    }
                }
            }
            if !g.drains.is_empty() {
                let r = state_of(sys).drain_balances(g.drains.iter().cloned());
                if r.is_ok() {
                    if let Some((r, _)) = reference.as_mut() {
                        for a in &g.drains {
                            // a drained account exists afterwards (with zero balance)
                            r.accounts.entry(*a).or_default().balance = U256::ZERO;
                        }
                    }
                    stats.inc("ops.drain_balances");
                }
            }
            // reach: AccountStatus transitions of this group
            if let Some(ts) = state_of(sys).transition_state.as_ref() {
                for t in ts.transitions.values() {
                    stats.inc(&format!("status.{:?}->{:?}", t.previous_status, t.status));
                }
            }
            state_of(sys).merge_transitions(BundleRetention::Reverts);
            if let Some((r, snaps)) = reference.as_mut() {
                snaps.push(normalize(r, self.sc));
                // C15: every read through the State equals the reference
                if check_reads {
                    let slots = self.case.world.slots.clone();
                    match sys.logical_state(&self.universe, &slots, self.sc) {
                        Ok(seen) => {
                            let want = restrict(snaps.last().unwrap(), &self.universe, &slots);
                            if seen != want {
                                let after_fault = g.fault_in_increments.is_some() && faults;
                                self.v("C15", "C15.reads", &[("field", diff_kind(&want, &seen).into()), ("after_failed_increment", after_fault.to_string())], format!("after group {gi}: State reads differ from the reference: {}", disk_diff(&want, &seen)));
                            }
                        }
                        Err(e) => self.v("C15", "C15.reads", &[("field", "error".into())], format!("read failed without a fault armed: {e}")),
                    }
                }
            }
        }
        results
    }
}

/// the part of a disk visible through (universe, slots) reads
fn restrict(d: &SimDisk, universe: &[Address], slots: &[U256]) -> SimDisk {
    let mut o = SimDisk { hash_salt: 0, ..Default::default() };
    for a in universe {
        if let Some(acc) = d.accounts.get(a) {
            let mut acc = acc.clone();
            acc.storage.retain(|k, _| slots.contains(k));
            o.accounts.insert(*a, acc);
        }
    }
    o
}

fn new_state_sys(world: &World, disk: SimDisk, prestate: Option<BundleState>) -> Sys {
    let spec = world.cfg.spec_id();
    let sc = spec.is_enabled_in(SpecId::SPURIOUS_DRAGON);
    let mut cfg = world.cfg.clone();
    cfg.insp = InspKind::None;
    cfg.stack = StackKind::StateBundle;
    let bottom = FaultyDb::new(disk);
    {
        let mut i = bottom.0.borrow_mut();
        i.lazy_code = cfg.lazy_code;
        i.empty_as_none = cfg.empty_as_none;
        i.state_clear = sc;
    }
    let mut b = State::builder().with_database(bottom.clone()).with_bundle_update();
    if !sc {
        b = b.without_state_clear();
    }
    if let Some(p) = prestate {
        b = b.with_bundle_prestate(p);
    }
    let evm = Sys::build_evm(&cfg, AnyDb::State(b.build()), &world.block);
    Sys { evm: Some(evm), bottom, cfg }
}

pub fn run_state_case(case: &StateCase, stats: &mut Stats) -> Vec<Violation> {
    let w = &case.world;
    let spec = w.cfg.spec_id();
    let sc = spec.is_enabled_in(SpecId::SPURIOUS_DRAGON);
    let salt = w.disk.hash_salt;
    let mut universe = w.universe.clone();
    universe.extend(w.disk.accounts.keys().cloned());
    universe.sort();
    universe.dedup();
    let mut rn = Runner { case, sc, universe: universe.clone(), out: Vec::new(), failed_increments: Default::default() };
    let n = case.groups.len();

    // ---------------- main run with flush / crash schedule
    let mut durable = w.disk.clone();
    let mut reference = w.disk.clone();
    let mut snaps: Vec<SimDisk> = vec![normalize(&w.disk, sc)];
    let mut sys = new_state_sys(w, durable.clone(), None);
    let mut seg_start = 0usize; // groups [seg_start, k) are in the current bundle
    let mut all_results: Vec<String> = Vec::new();
    let mut fp = Hasher64::new();
    fp.s(&w.cfg.spec);
    // remember the last segment for the split/extend/prestate checks
    let mut last_segment: Option<(usize, usize, SimDisk, BundleState)> = None;
    for k in 0..n {
        let res = rn.run_groups(&mut sys, k..k + 1, Some((&mut reference, &mut snaps)), true, true, stats);
        fp.s(&res.join("|"));
        all_results.extend(res.clone());
        let g = &case.groups[k];
        let last = k + 1 == n;
        if g.crash_after && !last && !g.flush_after {
            // F4: everything volatile is lost; rebuild over the durable disk and re-execute
            stats.inc("fault.F4_crash");
            drop(sys);
            sys = new_state_sys(w, durable.clone(), None);
            let again = rn.run_groups(&mut sys, seg_start..k + 1, None, false, false, stats);
            // re-execution is deterministic: same results for the re-run groups
            let want: Vec<String> = all_results[all_results.len() - again.len().min(all_results.len())..].to_vec();
            if again.len() <= all_results.len() && again != want {
                rn.v("C16", "C16.crash-reexecution", &[], format!("re-execution after a crash gave different results for groups {seg_start}..={k}"));
            }
        }
        if g.flush_after || last {
            stats.inc("ops.flush");
            let bundle = state_of(&mut sys).take_bundle();
            let pre = Plain::from_disk(&durable);
            let want = &snaps[k + 1];
            // ---- C16: changeset maps the pre-state to the post-state (Yes and No)
            let mut post_yes = pre.clone();
            apply_changeset(&mut post_yes, &bundle.to_plain_state(OriginalValuesKnown::Yes));
            let mut post_no = pre.clone();
            apply_changeset(&mut post_no, &bundle.to_plain_state(OriginalValuesKnown::No));
            for (name, post) in [("Yes", &post_yes), ("No", &post_no)] {
                match post.to_disk(salt, sc) {
                    Ok(d) => {
                        if &d != want {
                            rn.v("C16", "C16.changeset", &[("known", name.into()), ("field", diff_kind(want, &d).into())], format!("groups {seg_start}..={k}: pre-state + changeset({name}) != post-state: {}", disk_diff(want, &d)));
                        }
                    }
                    Err(e) => rn.v("C16", "C16.changeset", &[("known", name.into()), ("field", "code-missing".into())], e),
                }
            }
            // EIP-161 exactly (the comparison above treats "empty" and "absent" alike): an
            // account that was on the disk as an empty account and that the history touched is
            // deleted by the changeset. Only where the database reports empty accounts at all.
            if sc && !w.cfg.empty_as_none {
                for (a, acc) in &durable.accounts {
                    if acc.is_empty() && acc.storage.is_empty() && !reference.accounts.contains_key(a) {
                        stats.inc("probe.empty_account_deleted_by_history");
                        for (name, post) in [("Yes", &post_yes), ("No", &post_no)] {
                            if post.infos.contains_key(a) {
                                rn.v("C16", "C16.changeset", &[("known", name.into()), ("field", "touched-empty-not-deleted".into())], format!("groups {seg_start}..={k}: {a} was an empty account on the disk and was touched (state clearing active); the changeset({name}) does not delete it"));
                            }
                        }
                    }
                }
            }
            stats.inc("probe.changeset_checked");
            // ---- C17 oracle 1: walk the reverts backwards
            let reverts: PlainStateReverts = bundle.reverts.to_plain_state_reverts();
            let groups_in_bundle = k + 1 - seg_start;
            if reverts.accounts.len() == groups_in_bundle {
                let mut cur = post_yes.clone();
                for gi in (0..groups_in_bundle).rev() {
                    undo_group(&mut cur, &pre, &reverts.accounts[gi], &reverts.storage[gi]);
                    let want_prev = &snaps[seg_start + gi];
                    match cur.to_disk(salt, sc) {
                        Ok(d) => {
                            if &d != want_prev {
                                rn.v("C17", "C17.revert-walk", &[("field", diff_kind(want_prev, &d).into())], format!("undoing group {} of the bundle does not give the state before it: {}", seg_start + gi, disk_diff(want_prev, &d)));
                                break;
                            }
                        }
                        Err(e) => {
                            rn.v("C17", "C17.revert-walk", &[("field", "code-missing".into())], e);
                            break;
                        }
                    }
                    if reverts.storage[gi].iter().any(|s| s.wiped) {
                        stats.inc("probe.revert_with_wiped_storage");
                    }
                }
                stats.inc("probe.revert_walk_done");
            } else {
                rn.v("C17", "C17.revert-walk", &[("field", "group-count".into())], format!("bundle has {} revert groups for {groups_in_bundle} merged groups", reverts.accounts.len()));
            }
            // ---- C17 oracle 2: bundle.revert(j)
            'revert_n: for j in 0..=groups_in_bundle + 1 {
                let mut b = bundle.clone();
                b.revert(j);
                let idx = k + 1 - j.min(groups_in_bundle);
                for (name, known) in [("Yes", OriginalValuesKnown::Yes), ("No", OriginalValuesKnown::No)] {
                    let mut p = pre.clone();
                    apply_changeset(&mut p, &b.to_plain_state(known));
                    if let Ok(d) = p.to_disk(salt, sc) {
                        if d != snaps[idx] {
                            // narrow fact for a known defect class: the differing account's
                            // storage was wiped (account destroyed) in one of the reverted groups
                            let who = first_diff(&snaps[idx], &d);
                            let wiped_in_reverted = reverts.storage.iter().rev().take(j.min(groups_in_bundle)).flatten().any(|s| s.wiped && Some(s.address) == who);
                            rn.v(
                                "C17",
                                "C17.revert-n",
                                &[("field", diff_kind(&snaps[idx], &d).into()), ("known", name.into()), ("destroyed_in_reverted_group", wiped_in_reverted.to_string())],
                                format!("bundle.revert({j}) + changeset({name}) does not describe the state after {idx} group(s): {}", disk_diff(&snaps[idx], &d)),
                            );
                            break 'revert_n;
                        }
                    }
                }
            }
            // durable flush
            let flushed = post_yes.to_disk(salt, false).unwrap_or_else(|_| durable.clone());
            last_segment = Some((seg_start, k + 1, durable.clone(), bundle));
            durable = flushed;
            // After a flush the next bundle is built by a *fresh* State over the flushed disk
            // (what a node does per batch). Re-using the State after take_bundle is outside
            // the property: its cache keeps statuses (Destroyed, InMemoryChange, ...) that
            // are relative to the database it was built on, not to the flushed one, so the
            // next bundle would, for example, wipe the storage of an account that was
            // destroyed and re-created before the flush (the code's own TODO on take_bundle).
            drop(sys);
            sys = new_state_sys(w, durable.clone(), None);
            seg_start = k + 1;
        }
    }
    drop(sys);

    // ---------------- C15 twin: the same history on CacheDB gives the same results
    if rn.out.is_empty() {
        let mut cfg = w.cfg.clone();
        cfg.insp = InspKind::None;
        cfg.stack = StackKind::Cache;
        let mut csys = Sys::new(&cfg, w.disk.clone(), &w.block);
        let mut cres = Vec::new();
        for g in &case.groups {
            for tx in &g.txs {
                match csys.transact(tx) {
                    Ok(rs) => {
                        cres.push(format!("{:?}", rs.result));
                        csys.commit(rs.state);
                    }
                    Err(o) => cres.push(o.class()),
                }
            }
            // balance increments are a State-only API: replicate their effect on the CacheDB
            if !g.increments.is_empty() || !g.drains.is_empty() {
                cres.clear();
                break;
            }
        }
        let only_txs = case.groups.iter().all(|g| g.increments.is_empty() && g.drains.is_empty());
        if only_txs {
            stats.inc("probe.cachedb_twin_compared");
            let want: Vec<String> = all_results.iter().filter(|r| *r != "db-error-twice").cloned().collect();
            if cres != want {
                let i = cres.iter().zip(want.iter()).position(|(a, b)| a != b).unwrap_or(0);
                rn.v("C15", "C15.state-vs-cachedb", &[], format!("transaction {i}: State gave {:?}, CacheDB gave {:?}", want.get(i), cres.get(i)));
            }
        }
    }

    // ---------------- split / extend / prestate on the last segment (fault-free re-runs)
    if rn.out.is_empty() {
        if let Some((s, e, d_pre, mono)) = last_segment {
            let len = e - s;
            let i = case.split.min(len);
            let pre = Plain::from_disk(&d_pre);
            // bundle A: groups s..s+i over d_pre
            let mut sys_a = new_state_sys(w, d_pre.clone(), None);
            rn.run_groups(&mut sys_a, s..s + i, None, false, false, stats);
            let bundle_a = state_of(&mut sys_a).take_bundle();
            let mut p_i = pre.clone();
            apply_changeset(&mut p_i, &bundle_a.to_plain_state(OriginalValuesKnown::Yes));
            let d_i = p_i.to_disk(salt, false).unwrap_or_else(|_| d_pre.clone());
            // bundle B: groups s+i..e over d_i   (system 2 of C19)
            let mut sys_b = new_state_sys(w, d_i.clone(), None);
            let res_b = rn.run_groups(&mut sys_b, s + i..e, None, false, false, stats);
            let bundle_b = state_of(&mut sys_b).take_bundle();
            // ---- C18: A.extend(B) describes the same as the monolithic bundle
            let mut joined = bundle_a.clone();
            joined.extend(bundle_b.clone());
            let mut pj = pre.clone();
            apply_changeset(&mut pj, &joined.to_plain_state(OriginalValuesKnown::Yes));
            stats.inc("probe.extend_checked");
            if i == 0 || i == len {
                stats.inc("probe.extend_at_boundary");
            }
            match pj.to_disk(salt, sc) {
                Ok(d) => {
                    if d != snaps[e] {
                        rn.v("C18", "C18.extend-changeset", &[("field", diff_kind(&snaps[e], &d).into())], format!("A(groups {s}..{}) extended by B(..{e}) does not describe the post-state: {}", s + i, disk_diff(&snaps[e], &d)));
                    }
                }
                Err(err) => rn.v("C18", "C18.extend-changeset", &[("field", "code-missing".into())], err),
            }
            let jr = joined.reverts.to_plain_state_reverts();
            if jr.accounts.len() == len {
                let mut cur = pj.clone();
                for gi in (0..len).rev() {
                    undo_group(&mut cur, &pre, &jr.accounts[gi], &jr.storage[gi]);
                    if let Ok(d) = cur.to_disk(salt, sc) {
                        if d != snaps[s + gi] {
                            rn.v("C18", "C18.extend-reverts", &[("field", diff_kind(&snaps[s + gi], &d).into()), ("half", if gi >= i { "B".into() } else { "A".to_string() })], format!("joined bundle (split at {i}): undoing group {} does not give the state before it: {}", s + gi, disk_diff(&snaps[s + gi], &d)));
                            break;
                        }
                    }
                }
            } else {
                rn.v("C18", "C18.extend-reverts", &[("field", "group-count".into())], format!("joined bundle has {} revert groups, expected {len}", jr.accounts.len()));
            }
            // ---- C18: take_n_reverts(m) on the monolithic bundle
            let m = case.take_m.min(len);
            let mut rest = mono.clone();
            let detached = rest.take_n_reverts(m);
            let dr = detached.to_plain_state_reverts();
            let rr = rest.reverts.to_plain_state_reverts();
            if dr.accounts.len() != m || rr.accounts.len() != len - m {
                rn.v("C18", "C18.take-n-reverts", &[("field", "count".into())], format!("take_n_reverts({m}) of {len} groups returned {} and left {}", dr.accounts.len(), rr.accounts.len()));
            } else {
                let mut cur = pre.clone();
                apply_changeset(&mut cur, &mono.to_plain_state(OriginalValuesKnown::Yes));
                let mut ok = true;
                for gi in (0..len - m).rev() {
                    undo_group(&mut cur, &pre, &rr.accounts[gi], &rr.storage[gi]);
                    if let Ok(d) = cur.to_disk(salt, sc) {
                        if d != snaps[s + m + gi] {
                            rn.v("C18", "C18.take-n-reverts", &[("field", "rest".into())], format!("take_n_reverts({m}): the remaining reverts do not undo group {}: {}", s + m + gi, disk_diff(&snaps[s + m + gi], &d)));
                            ok = false;
                            break;
                        }
                    }
                }
                if ok {
                    for gi in (0..m).rev() {
                        undo_group(&mut cur, &pre, &dr.accounts[gi], &dr.storage[gi]);
                        if let Ok(d) = cur.to_disk(salt, sc) {
                            if d != snaps[s + gi] {
                                rn.v("C18", "C18.take-n-reverts", &[("field", "detached".into())], format!("take_n_reverts({m}): the detached reverts do not undo group {}: {}", s + gi, disk_diff(&snaps[s + gi], &d)));
                                break;
                            }
                        }
                    }
                }
                stats.inc("probe.take_n_reverts_checked");
            }
            // ---- C18: prepend_state(older) keeps the newer values
            let mut newer = bundle_b.clone();
            newer.prepend_state(bundle_a.clone());
            let mut pp = pre.clone();
            apply_changeset(&mut pp, &newer.to_plain_state(OriginalValuesKnown::No));
            if let Ok(d) = pp.to_disk(salt, sc) {
                if d != snaps[e] {
                    rn.v("C18", "C18.prepend-state", &[("field", diff_kind(&snaps[e], &d).into())], format!("B.prepend_state(A) does not describe the post-state: {}", disk_diff(&snaps[e], &d)));
                }
            }
            // ---- C19: State over d_pre with bundle A preloaded == State over d_i
            let mut sys_1 = new_state_sys(w, d_pre.clone(), Some(bundle_a.clone()));
            stats.inc("probe.prestate_checked");
            let slots = w.slots.clone();
            let r1 = sys_1.logical_state(&universe, &slots, sc);
            let mut sys_2r = new_state_sys(w, d_i.clone(), None);
            let r2 = sys_2r.logical_state(&universe, &slots, sc);
            match (r1, r2) {
                (Ok(a), Ok(b)) => {
                    if a != b {
                        rn.v("C19", "C19.reads", &[("field", diff_kind(&b, &a).into())], format!("reads over a preloaded bundle differ from reads over the merged disk: {}", disk_diff(&b, &a)));
                    }
                }
                _ => rn.v("C19", "C19.reads", &[("field", "error".into())], "read failed without a fault armed".into()),
            }
            // (fresh systems for execution: the read sweep above loaded every account)
            let mut sys_1 = new_state_sys(w, d_pre.clone(), Some(bundle_a.clone()));
            let res_1 = rn.run_groups(&mut sys_1, s + i..e, None, false, false, stats);
            if res_1 != res_b {
                let x = res_1.iter().zip(res_b.iter()).position(|(a, b)| a != b).unwrap_or(0);
                rn.v("C19", "C19.results", &[], format!("execution on a preloaded bundle differs from execution on the merged disk at transaction {x}: {:?} vs {:?}", res_1.get(x), res_b.get(x)));
            }
            let bundle_1 = state_of(&mut sys_1).take_bundle();
            let mut p1 = pre.clone();
            apply_changeset(&mut p1, &bundle_1.to_plain_state(OriginalValuesKnown::Yes));
            if let Ok(d) = p1.to_disk(salt, sc) {
                if d != snaps[e] {
                    rn.v("C19", "C19.final-changeset", &[("field", diff_kind(&snaps[e], &d).into())], format!("pre-state + changeset(preloaded bundle after execution) != post-state: {}", disk_diff(&snaps[e], &d)));
                }
            }
            let mut p2 = Plain::from_disk(&d_i);
            apply_changeset(&mut p2, &bundle_b.to_plain_state(OriginalValuesKnown::Yes));
            if let Ok(d) = p2.to_disk(salt, sc) {
                if d != snaps[e] {
                    rn.v("C19", "C19.final-changeset", &[("field", "merged-disk-side".into())], format!("merged disk + changeset(B) != post-state: {}", disk_diff(&snaps[e], &d)));
                }
            }
        }
    }
    stats.fingerprint(fp.finish());
    if stats.samples.is_empty() {
        stats.samples.push(json!({"spec": w.cfg.spec, "groups": case.groups.iter().map(|g| json!({"txs": g.txs.len(), "increments": g.increments.len(), "drains": g.drains.len(), "flush_after": g.flush_after, "crash_after": g.crash_after, "fault_in_tx": g.fault_in_tx, "fault_in_increments": g.fault_in_increments})).collect::<Vec<_>>(), "split": case.split, "take_m": case.take_m}));
    }
    let mut seen = std::collections::BTreeSet::new();
    let mut out = rn.out;
    out.retain(|v| seen.insert(v.class_key()));
    let _ = keccak256([0u8]);
    out
}

#[allow(dead_code)]
fn _db<T: Database>(_: T) {}
