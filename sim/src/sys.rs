//! Systems under simulation: layer stacks (`AnyDb`), inspectors (`AnyInsp`), the `Sys`
//! wrapper around a live `Evm`, transaction descriptions and logical state reads.
use crate::disk::*;
use crate::monitor::Monitor;
use revm::db::states::bundle_state::BundleRetention;
use revm::db::{CacheDB, EmptyDBTyped, State, WrapDatabaseRef};
use revm::inspectors::{GasInspector, NoOpInspector, TracerEip3155};
use revm::interpreter::{
    CallInputs, CallOutcome, CreateInputs, CreateOutcome, EOFCreateInputs, Interpreter,
};
use revm::primitives::{
    AccessListItem, AccountInfo, Address, AnalysisKind, Authorization, AuthorizationList,
    BlobExcessGasAndPrice, Bytecode, Bytes, EVMError, Env, EvmState, ExecutionResult, Log,
    RecoveredAuthority, RecoveredAuthorization, ResultAndState, SpecId, TxKind, B256, U256,
};
use revm::{inspector_handle_register, Database, DatabaseCommit, Evm, EvmContext, Inspector};
use serde::{Deserialize, Serialize};
use std::collections::BTreeMap;

// ---------------------------------------------------------------- layer stacks

#[derive(Clone, Copy, Debug, PartialEq, Eq, Serialize, Deserialize)]
pub enum StackKind {
    Raw,
    Cache,
    State,
    StateBundle,
    WrapRef,
    WrapRefCache,
    CacheCache,
    StateOverCache,
    BoxedState,
    MutRefCache,
    /// `CacheDB<EmptyDB>` (the crate's `InMemoryDB`): the world is loaded through
    /// `insert_account_info` / `insert_account_storage`; no bottom database to fault
    CacheEmpty,
    /// `State<EmptyDB>` with the world loaded through `insert_account_with_storage`
    StateEmpty,
}

impl StackKind {
    pub fn in_memory(&self) -> bool {
        matches!(self, StackKind::CacheEmpty | StackKind::StateEmpty)
    }
}

pub const ALL_STACKS: &[StackKind] = &[
    StackKind::Raw,
    StackKind::Cache,
    StackKind::State,
    StackKind::StateBundle,
    StackKind::WrapRef,
    StackKind::WrapRefCache,
    StackKind::CacheCache,
    StackKind::StateOverCache,
    StackKind::BoxedState,
    StackKind::MutRefCache,
    StackKind::CacheEmpty,
    StackKind::StateEmpty,
];

pub enum AnyDb {
    Raw(FaultyDb),
    Cache(CacheDB<FaultyDb>),
    State(State<FaultyDb>),
    WrapRef(WrapDatabaseRef<FaultyDb>),
    WrapRefCache(WrapDatabaseRef<CacheDB<FaultyDb>>),
    CacheCache(CacheDB<CacheDB<FaultyDb>>),
    StateOverCache(State<CacheDB<FaultyDb>>),
    BoxedState(Box<State<Box<FaultyDb>>>),
    CacheEmpty(CacheDB<EmptyDBTyped<DbErr>>),
    StateEmpty(State<EmptyDBTyped<DbErr>>),
}

macro_rules! each_db {
    ($self:expr, $d:ident => $e:expr) => {
        match $self {
            AnyDb::Raw($d) => $e,
            AnyDb::Cache($d) => $e,
            AnyDb::State($d) => $e,
            AnyDb::WrapRef($d) => $e,
            AnyDb::WrapRefCache($d) => $e,
            AnyDb::CacheCache($d) => $e,
            AnyDb::StateOverCache($d) => $e,
            AnyDb::BoxedState($d) => $e,
            AnyDb::CacheEmpty($d) => $e,
            AnyDb::StateEmpty($d) => $e,
        }
    };
}

impl AnyDb {
    pub fn build(kind: StackKind, bottom: FaultyDb, state_clear: bool) -> AnyDb {
        let st = |bundle: bool| {
            let mut b = State::builder().with_database(bottom.clone());
            if bundle {
                b = b.with_bundle_update();
            }
            if !state_clear {
                b = b.without_state_clear();
            }
            b.build()
        };
        match kind {
            StackKind::Raw => AnyDb::Raw(bottom),
            StackKind::Cache | StackKind::MutRefCache => AnyDb::Cache(CacheDB::new(bottom)),
            StackKind::State => AnyDb::State(st(false)),
            StackKind::StateBundle => AnyDb::State(st(true)),
            StackKind::WrapRef => AnyDb::WrapRef(WrapDatabaseRef(bottom)),
            StackKind::WrapRefCache => AnyDb::WrapRefCache(WrapDatabaseRef(CacheDB::new(bottom))),
            StackKind::CacheCache => AnyDb::CacheCache(CacheDB::new(CacheDB::new(bottom))),
            StackKind::StateOverCache => {
                let mut b = State::builder().with_database(CacheDB::new(bottom)).with_bundle_update();
                if !state_clear {
                    b = b.without_state_clear();
                }
                AnyDb::StateOverCache(b.build())
            }
            StackKind::BoxedState => {
                let mut b = State::builder().with_database(Box::new(bottom)).with_bundle_update();
                if !state_clear {
                    b = b.without_state_clear();
                }
                AnyDb::BoxedState(Box::new(b.build()))
            }
            StackKind::CacheEmpty => {
                let mut c = CacheDB::new(EmptyDBTyped::<DbErr>::new());
                for (a, d) in &bottom.disk().accounts {
                    let code = if d.code.is_empty() { None } else { Some(to_bytecode(&d.code)) };
                    c.insert_account_info(*a, AccountInfo { balance: d.balance, nonce: d.nonce, code_hash: d.code_hash(), code });
                    for (k, v) in &d.storage {
                        c.insert_account_storage(*a, *k, *v).expect("EmptyDB does not fail");
                    }
                }
                AnyDb::CacheEmpty(c)
            }
            StackKind::StateEmpty => {
                let mut b = State::builder().with_database(EmptyDBTyped::<DbErr>::new()).with_bundle_update();
                if !state_clear {
                    b = b.without_state_clear();
                }
                let mut st = b.build();
                for (a, d) in &bottom.disk().accounts {
                    let code = if d.code.is_empty() { None } else { Some(to_bytecode(&d.code)) };
                    let info = AccountInfo { balance: d.balance, nonce: d.nonce, code_hash: d.code_hash(), code };
                    st.insert_account_with_storage(*a, info, d.storage.iter().map(|(k, v)| (*k, *v)).collect());
                }
                AnyDb::StateEmpty(st)
            }
        }
    }
    /// merge pending transitions (State stacks), as a block boundary would
    pub fn merge(&mut self, retention: BundleRetention) {
        match self {
            AnyDb::State(s) => s.merge_transitions(retention),
            AnyDb::StateOverCache(s) => s.merge_transitions(retention),
            AnyDb::BoxedState(s) => s.merge_transitions(retention),
            AnyDb::StateEmpty(s) => s.merge_transitions(retention),
            _ => {}
        }
    }
}

impl Database for AnyDb {
    type Error = DbErr;
    fn basic(&mut self, a: Address) -> Result<Option<AccountInfo>, DbErr> {
        each_db!(self, d => d.basic(a))
    }
    fn code_by_hash(&mut self, h: B256) -> Result<Bytecode, DbErr> {
        each_db!(self, d => d.code_by_hash(h))
    }
    fn has_storage(&mut self, a: Address) -> Result<bool, DbErr> {
        each_db!(self, d => d.has_storage(a))
    }
    fn storage(&mut self, a: Address, k: U256) -> Result<U256, DbErr> {
        each_db!(self, d => d.storage(a, k))
    }
    fn block_hash(&mut self, n: u64) -> Result<B256, DbErr> {
        each_db!(self, d => d.block_hash(n))
    }
}

impl DatabaseCommit for AnyDb {
    fn commit(&mut self, changes: EvmState) {
        each_db!(self, d => d.commit(changes))
    }
}

// ---------------------------------------------------------------- inspectors

#[derive(Clone, Copy, Debug, PartialEq, Eq, Serialize, Deserialize)]
pub enum InspKind {
    /// no inspector register at all
    None,
    NoOp,
    Gas,
    Tracer,
    Monitor,
}

pub enum AnyInsp {
    None,
    NoOp(NoOpInspector),
    Gas(GasInspector),
    Tracer(TracerEip3155),
    Monitor(Box<Monitor>),
}

macro_rules! each_insp {
    ($self:expr, $i:ident => $e:expr, $none:expr) => {
        match $self {
            AnyInsp::None => $none,
            AnyInsp::NoOp($i) => $e,
            AnyInsp::Gas($i) => $e,
            AnyInsp::Tracer($i) => $e,
            AnyInsp::Monitor($i) => $e,
        }
    };
}

impl Inspector<AnyDb> for AnyInsp {
    fn initialize_interp(&mut self, interp: &mut Interpreter, context: &mut EvmContext<AnyDb>) {
        each_insp!(self, i => i.initialize_interp(interp, context), ())
    }
    fn step(&mut self, interp: &mut Interpreter, context: &mut EvmContext<AnyDb>) {
        each_insp!(self, i => i.step(interp, context), ())
    }
    fn step_end(&mut self, interp: &mut Interpreter, context: &mut EvmContext<AnyDb>) {
        each_insp!(self, i => i.step_end(interp, context), ())
    }
    fn log(&mut self, interp: &mut Interpreter, context: &mut EvmContext<AnyDb>, log: &Log) {
        each_insp!(self, i => i.log(interp, context, log), ())
    }
    fn call(&mut self, context: &mut EvmContext<AnyDb>, inputs: &mut CallInputs) -> Option<CallOutcome> {
        each_insp!(self, i => i.call(context, inputs), None)
    }
    fn call_end(&mut self, context: &mut EvmContext<AnyDb>, inputs: &CallInputs, outcome: CallOutcome) -> CallOutcome {
        each_insp!(self, i => i.call_end(context, inputs, outcome), outcome)
    }
    fn create(&mut self, context: &mut EvmContext<AnyDb>, inputs: &mut CreateInputs) -> Option<CreateOutcome> {
        each_insp!(self, i => i.create(context, inputs), None)
    }
    fn create_end(&mut self, context: &mut EvmContext<AnyDb>, inputs: &CreateInputs, outcome: CreateOutcome) -> CreateOutcome {
        each_insp!(self, i => i.create_end(context, inputs, outcome), outcome)
    }
    fn eofcreate(&mut self, context: &mut EvmContext<AnyDb>, inputs: &mut EOFCreateInputs) -> Option<CreateOutcome> {
        each_insp!(self, i => i.eofcreate(context, inputs), None)
    }
    fn eofcreate_end(&mut self, context: &mut EvmContext<AnyDb>, inputs: &EOFCreateInputs, outcome: CreateOutcome) -> CreateOutcome {
        each_insp!(self, i => i.eofcreate_end(context, inputs, outcome), outcome)
    }
    fn selfdestruct(&mut self, contract: Address, target: Address, value: U256) {
        each_insp!(self, i => <_ as Inspector<AnyDb>>::selfdestruct(i, contract, target, value), ())
    }
}

// F8: the trace sink of the EIP-3155 tracer fails. The tracer writes one JSON line per step
// into a `Box<dyn Write>`; this writer returns an error, is interrupted, writes short or
// writes nothing from its `at`-th write call on (armed per case through a thread-local, as
// the tracer is built deep inside the system). Nothing of that may reach the execution.
thread_local! {
    static TRACE_FAULT: std::cell::Cell<Option<(u64, u8)>> = const { std::cell::Cell::new(None) };
    static TRACE_WRITES: std::cell::Cell<(u64, u64)> = const { std::cell::Cell::new((0, 0)) };
}
/// `(at, kind)`: 0 error once, 1 Interrupted once, 2 short write once, 3 Ok(0) once,
/// 4 error on every write from `at` on, 5 error from flush
pub fn arm_trace_fault(f: Option<(u64, u8)>) {
    TRACE_FAULT.with(|c| c.set(f));
    TRACE_WRITES.with(|c| c.set((0, 0)));
}
/// (write calls seen, faults injected) since the last arming
pub fn trace_write_stats() -> (u64, u64) {
    TRACE_WRITES.with(|c| c.get())
}
pub struct FaultyWriter;
impl std::io::Write for FaultyWriter {
    fn write(&mut self, buf: &[u8]) -> std::io::Result<usize> {
        let (n, faults) = TRACE_WRITES.with(|c| c.get());
        TRACE_WRITES.with(|c| c.set((n + 1, faults)));
        if let Some((at, kind)) = TRACE_FAULT.with(|c| c.get()) {
            let hit = if kind == 4 { n >= at } else { n == at };
            if hit && kind != 5 {
                TRACE_WRITES.with(|c| c.set((n + 1, faults + 1)));
                return match kind {
                    1 => Err(std::io::Error::from(std::io::ErrorKind::Interrupted)),
                    2 => Ok((buf.len() / 2).max(1).min(buf.len())),
                    3 => Ok(0),
                    _ => Err(std::io::Error::new(std::io::ErrorKind::Other, "simulated trace sink failure")),
                };
            }
        }
        Ok(buf.len())
    }
    fn flush(&mut self) -> std::io::Result<()> {
        if let Some((at, 5)) = TRACE_FAULT.with(|c| c.get()) {
            let (n, faults) = TRACE_WRITES.with(|c| c.get());
            if n >= at {
                TRACE_WRITES.with(|c| c.set((n, faults + 1)));
                return Err(std::io::Error::new(std::io::ErrorKind::Other, "simulated flush failure"));
            }
        }
        Ok(())
    }
}

pub fn make_insp(kind: InspKind) -> AnyInsp {
    match kind {
        InspKind::None => AnyInsp::None,
        InspKind::NoOp => AnyInsp::NoOp(NoOpInspector),
        InspKind::Gas => AnyInsp::Gas(GasInspector::default()),
        InspKind::Tracer => AnyInsp::Tracer(TracerEip3155::new(Box::new(FaultyWriter))),
        InspKind::Monitor => AnyInsp::Monitor(Box::new(Monitor::default())),
    }
}

// ---------------------------------------------------------------- world / tx description

#[derive(Clone, Debug, Serialize, Deserialize, PartialEq)]
pub struct BlockSpec {
    pub number: u64,
    pub coinbase: Address,
    pub timestamp: u64,
    pub gas_limit: U256,
    pub basefee: U256,
    pub difficulty: U256,
    pub prevrandao: Option<B256>,
    pub excess_blob_gas: Option<u64>,
}

#[derive(Clone, Debug, Serialize, Deserialize, PartialEq)]
pub struct AuthSpec {
    pub chain_id: u64,
    pub address: Address,
    pub nonce: u64,
    /// None = signature does not recover
    pub authority: Option<Address>,
}

#[derive(Clone, Debug, Serialize, Deserialize, PartialEq)]
pub struct TxSpec {
    pub caller: Address,
    /// None = create
    pub to: Option<Address>,
    pub value: U256,
    pub data: Bytes,
    pub gas_limit: u64,
    pub gas_price: U256,
    pub priority_fee: Option<U256>,
    pub nonce: Option<u64>,
    pub chain_id: Option<u64>,
    #[serde(default)]
    pub access_list: Vec<(Address, Vec<U256>)>,
    #[serde(default)]
    pub blob_hashes: Vec<B256>,
    #[serde(default)]
    pub max_fee_per_blob_gas: Option<U256>,
    #[serde(default)]
    pub auth_list: Option<Vec<AuthSpec>>,
}

impl TxSpec {
    pub fn simple(caller: Address, to: Option<Address>, data: Bytes, gas_limit: u64) -> Self {
        TxSpec {
            caller,
            to,
            value: U256::ZERO,
            data,
            gas_limit,
            gas_price: U256::ZERO,
            priority_fee: None,
            nonce: None,
            chain_id: None,
            access_list: vec![],
            blob_hashes: vec![],
            max_fee_per_blob_gas: None,
            auth_list: None,
        }
    }
}

#[derive(Clone, Debug, Serialize, Deserialize, PartialEq)]
pub struct SysCfg {
    pub spec: String,
    pub stack: StackKind,
    pub insp: InspKind,
    pub lazy_code: bool,
    pub empty_as_none: bool,
    pub analyse: bool,
    pub code_size_limit: Option<usize>,
    pub chain_id: u64,
    /// reward beneficiary handler flag (C22)
    pub reward: bool,
    /// F5: replace the identity precompile (0x04) by a stateful one that can be armed to
    /// return a fatal error at its k-th call (`arm_precompile_fault`)
    #[serde(default)]
    pub fault_precompile: bool,
}

// ---------------------------------------------------------------- F5: fatal precompile

thread_local! {
    /// (calls so far, fail at call index or u64::MAX, fired)
    static PRECOMPILE_FAULT: std::cell::Cell<(u64, u64, u64)> = const { std::cell::Cell::new((0, u64::MAX, 0)) };
}

/// Arm the faulty identity precompile of the system that runs next on this thread.
pub fn arm_precompile_fault(at: Option<u64>) {
    PRECOMPILE_FAULT.with(|c| c.set((0, at.unwrap_or(u64::MAX), c.get().2)));
}
pub fn precompile_faults_fired() -> u64 {
    PRECOMPILE_FAULT.with(|c| c.get().2)
}

struct FaultyIdentity;

impl revm::ContextStatefulPrecompile<AnyDb> for FaultyIdentity {
    fn call(&self, bytes: &Bytes, gas_limit: u64, _ctx: &mut revm::InnerEvmContext<AnyDb>) -> revm::precompile::PrecompileResult {
        let (calls, at, fired) = PRECOMPILE_FAULT.with(|c| c.get());
        PRECOMPILE_FAULT.with(|c| c.set((calls + 1, at, fired + (calls == at) as u64)));
        if calls == at {
            return Err(revm::precompile::PrecompileErrors::Fatal { msg: "injected fatal precompile error".into() });
        }
        // identity: 15 + 3 per word
        let gas = 15 + 3 * ((bytes.len() as u64 + 31) / 32);
        if gas > gas_limit {
            return Err(revm::precompile::PrecompileError::OutOfGas.into());
        }
        Ok(revm::precompile::PrecompileOutput::new(gas, bytes.clone()))
    }
}

fn faulty_precompile_register(h: &mut revm::handler::register::EvmHandler<'_, AnyInsp, AnyDb>) {
    let prev = h.pre_execution.load_precompiles.clone();
    h.pre_execution.load_precompiles = std::sync::Arc::new(move || {
        let mut p = prev();
        p.to_mut().insert(Address::with_last_byte(4), revm::ContextPrecompile::ContextStateful(std::sync::Arc::new(FaultyIdentity)));
        p
    });
}

impl SysCfg {
    pub fn spec_id(&self) -> SpecId {
        SpecId::from(self.spec.as_str())
    }
}

pub fn apply_block(env: &mut Env, b: &BlockSpec, spec: SpecId) {
    env.block.number = U256::from(b.number);
    env.block.coinbase = b.coinbase;
    env.block.timestamp = U256::from(b.timestamp);
    env.block.gas_limit = b.gas_limit;
    env.block.basefee = b.basefee;
    env.block.difficulty = b.difficulty;
    env.block.prevrandao = b.prevrandao;
    env.block.blob_excess_gas_and_price = b
        .excess_blob_gas
        .map(|e| BlobExcessGasAndPrice::new(e, spec.is_enabled_in(SpecId::PRAGUE)));
}

pub fn apply_tx(env: &mut Env, t: &TxSpec) {
    let tx = &mut env.tx;
    tx.caller = t.caller;
    tx.transact_to = match t.to {
        Some(a) => TxKind::Call(a),
        None => TxKind::Create,
    };
    tx.value = t.value;
    tx.data = t.data.clone();
    tx.gas_limit = t.gas_limit;
    tx.gas_price = t.gas_price;
    tx.gas_priority_fee = t.priority_fee;
    tx.nonce = t.nonce;
    tx.chain_id = t.chain_id;
    tx.access_list = t
        .access_list
        .iter()
        .map(|(a, ks)| AccessListItem {
            address: *a,
            storage_keys: ks.iter().map(|k| B256::from(k.to_be_bytes::<32>())).collect(),
        })
        .collect();
    tx.blob_hashes = t.blob_hashes.clone();
    tx.max_fee_per_blob_gas = t.max_fee_per_blob_gas;
    tx.authorization_list = t.auth_list.as_ref().map(|l| {
        AuthorizationList::Recovered(
            l.iter()
                .map(|a| {
                    RecoveredAuthorization::new_unchecked(
                        Authorization { chain_id: U256::from(a.chain_id), address: a.address, nonce: a.nonce },
                        match a.authority {
                            Some(x) => RecoveredAuthority::Valid(x),
                            None => RecoveredAuthority::Invalid,
                        },
                    )
                })
                .collect(),
        )
    });
}

// ---------------------------------------------------------------- the system

pub type TheEvm = Evm<'static, AnyInsp, AnyDb>;

pub struct Sys {
    pub evm: Option<TheEvm>,
    pub bottom: FaultyDb,
    pub cfg: SysCfg,
}

#[derive(Clone, Debug, PartialEq)]
pub enum TxOutcome {
    Ok(ExecutionResult),
    /// validation error, by class ("tx:<variant>" / "header:<variant>")
    Invalid(String),
    Db(String),
    Other(String),
}

impl TxOutcome {
    pub fn class(&self) -> String {
        match self {
            TxOutcome::Ok(ExecutionResult::Success { reason, .. }) => format!("success:{reason:?}"),
            TxOutcome::Ok(ExecutionResult::Revert { .. }) => "revert".into(),
            TxOutcome::Ok(ExecutionResult::Halt { reason, .. }) => format!("halt:{reason:?}"),
            TxOutcome::Invalid(s) => format!("invalid:{s}"),
            TxOutcome::Db(_) => "db-error".into(),
            TxOutcome::Other(s) => format!("other:{s}"),
        }
    }
    pub fn is_db_err(&self) -> bool {
        matches!(self, TxOutcome::Db(_))
    }
}

pub fn classify<T>(r: Result<T, EVMError<DbErr>>) -> Result<T, TxOutcome> {
    match r {
        Ok(x) => Ok(x),
        Err(EVMError::Transaction(e)) => {
            let s = format!("{e:?}");
            let v = s.split([' ', '{', '(']).next().unwrap_or("").to_string();
            Err(TxOutcome::Invalid(format!("tx:{v}")))
        }
        Err(EVMError::Header(e)) => Err(TxOutcome::Invalid(format!("header:{e:?}"))),
        Err(EVMError::Database(e)) => Err(TxOutcome::Db(e.0)),
        Err(EVMError::Custom(s)) => Err(TxOutcome::Other(format!("custom:{s}"))),
        Err(EVMError::Precompile(s)) => Err(TxOutcome::Other(format!("precompile:{s}"))),
    }
}

impl Sys {
    pub fn new(cfg: &SysCfg, disk: SimDisk, block: &BlockSpec) -> Sys {
        let bottom = FaultyDb::new(disk);
        Self::over(cfg, bottom, block)
    }

    /// Build the stack + Evm over an existing bottom database (restart after a crash).
    pub fn over(cfg: &SysCfg, bottom: FaultyDb, block: &BlockSpec) -> Sys {
        let spec = cfg.spec_id();
        let state_clear = spec.is_enabled_in(SpecId::SPURIOUS_DRAGON);
        {
            let mut i = bottom.0.borrow_mut();
            i.lazy_code = cfg.lazy_code;
            i.empty_as_none = cfg.empty_as_none;
            i.state_clear = state_clear;
        }
        let db = AnyDb::build(cfg.stack, bottom.clone(), state_clear);
        let evm = Self::build_evm(cfg, db, block);
        Sys { evm: Some(evm), bottom, cfg: cfg.clone() }
    }

    pub fn build_evm(cfg: &SysCfg, db: AnyDb, block: &BlockSpec) -> TheEvm {
        let spec = cfg.spec_id();
        let mut b = Evm::builder().with_db(db).with_external_context(make_insp(cfg.insp)).with_spec_id(spec);
        if !cfg.reward {
            b = b.with_handler(revm::Handler::mainnet_with_spec(spec, false));
        }
        let mut evm = if cfg.insp != InspKind::None { b.append_handler_register(inspector_handle_register).build() } else { b.build() };
        if cfg.fault_precompile {
            evm = evm.modify().append_handler_register(faulty_precompile_register).build();
        }
        {
            let env = &mut evm.context.evm.env;
            env.cfg.chain_id = cfg.chain_id;
            env.cfg.perf_analyse_created_bytecodes = if cfg.analyse { AnalysisKind::Analyse } else { AnalysisKind::Raw };
            env.cfg.limit_contract_code_size = cfg.code_size_limit;
            apply_block(env, block, spec);
        }
        evm
    }

    pub fn evm(&mut self) -> &mut TheEvm {
        self.evm.as_mut().unwrap()
    }

    pub fn set_block(&mut self, block: &BlockSpec) {
        let spec = self.evm().spec_id();
        apply_block(&mut self.evm().context.evm.env, block, spec);
    }

    pub fn monitor(&mut self) -> Option<&mut Monitor> {
        match &mut self.evm().context.external {
            AnyInsp::Monitor(m) => Some(m),
            _ => None,
        }
    }

    /// transact (no commit)
    pub fn transact(&mut self, tx: &TxSpec) -> Result<ResultAndState, TxOutcome> {
        apply_tx(&mut self.evm().context.evm.env, tx);
        classify(self.evm().transact())
    }

    pub fn transact_commit(&mut self, tx: &TxSpec) -> TxOutcome {
        apply_tx(&mut self.evm().context.evm.env, tx);
        match classify(self.evm().transact_commit()) {
            Ok(r) => TxOutcome::Ok(r),
            Err(o) => o,
        }
    }

    pub fn preverify(&mut self, tx: &TxSpec) -> Result<(), TxOutcome> {
        apply_tx(&mut self.evm().context.evm.env, tx);
        classify(self.evm().preverify_transaction())
    }

    pub fn transact_preverified(&mut self, tx: &TxSpec) -> Result<ResultAndState, TxOutcome> {
        apply_tx(&mut self.evm().context.evm.env, tx);
        classify(self.evm().transact_preverified())
    }

    pub fn commit(&mut self, state: EvmState) {
        self.evm().context.evm.db.commit(state);
    }

    /// Logical state of an account as seen through the whole layer stack (faults must be
    /// disarmed by the caller). `None` = does not exist.
    pub fn read_account(&mut self, a: Address, slots: &[U256]) -> Result<Option<DiskAccount>, DbErr> {
        let db = &mut self.evm().context.evm.db;
        let info = db.basic(a)?;
        let Some(info) = info else { return Ok(None) };
        let code = match &info.code {
            Some(c) => c.original_bytes(),
            None => {
                if info.code_hash == revm::primitives::KECCAK_EMPTY {
                    Bytes::new()
                } else {
                    db.code_by_hash(info.code_hash)?.original_bytes()
                }
            }
        };
        let mut storage = BTreeMap::new();
        for k in slots {
            let v = db.storage(a, *k)?;
            if !v.is_zero() {
                storage.insert(*k, v);
            }
        }
        Ok(Some(DiskAccount { balance: info.balance, nonce: info.nonce, code, storage }))
    }

    /// Logical view of the universe (addresses x slots) through the stack.
    pub fn logical_state(&mut self, addrs: &[Address], slots: &[U256], state_clear: bool) -> Result<SimDisk, DbErr> {
        let mut d = SimDisk::default();
        for a in addrs {
            if let Some(acc) = self.read_account(*a, slots)? {
                // CacheDB keeps touched empty accounts as Some(empty) by design; with state
                // clear an empty account without storage is the same as no account
                if state_clear && acc.is_empty() && acc.storage.is_empty() {
                    continue;
                }
                d.accounts.insert(*a, acc);
            }
        }
        Ok(d)
    }
}
