//! E1 `txsim`, monitor mode: whole transactions on a live `Evm` with the monitor
//! inspector registered, database faults (F1), out-of-gas sweeps (F2), inspector
//! short-circuits (F3). Serves C06 (frame level), C07, C08, C09, C10, C11, C25 (panics),
//! C29, C30, C34.
use crate::asm::*;
use crate::core::*;
use crate::disk::*;
use crate::model::*;
use crate::monitor::{ForceHalt, InputTweak, ShortCircuit, SkipFrame, TxCtx};
use crate::sys::*;
use crate::world::*;
use alloy_primitives::U512;
use revm::primitives::{Address, Bytes, ExecutionResult, SpecId, U256};
use serde::{Deserialize, Serialize};
use serde_json::json;

#[derive(Clone, Debug, Serialize, Deserialize)]
pub struct TxOp {
    pub tx: TxSpec,
    /// database fault schedule armed for this transaction
    #[serde(default)]
    pub faults: FaultPlan,
    #[serde(default)]
    pub short_circuits: Vec<ShortCircuit>,
    /// F3b: the inspector halts the running frame from `step_end`
    #[serde(default)]
    pub force_halt: Option<ForceHalt>,
    /// F3c: the inspector lowers the gas limit of a frame inside its hook
    #[serde(default)]
    pub input_tweak: Option<InputTweak>,
    /// F3e: the inspector skips the execution of an inner frame from initialize_interp
    #[serde(default)]
    pub skip_frame: Option<SkipFrame>,
    /// use transact_commit (true) or transact + explicit commit (false)
    #[serde(default)]
    pub via_commit: bool,
    /// expected output of a depth probe (C07), if this transaction is one
    #[serde(default)]
    pub probe_expect: Option<u64>,
    /// the block's beneficiary changes before this transaction (a new block on the same Evm)
    #[serde(default)]
    pub coinbase: Option<Address>,
}

#[derive(Clone, Debug, Serialize, Deserialize)]
pub struct TxCase {
    pub world: World,
    pub ops: Vec<TxOp>,
}

pub struct TxSim {
    pub focus: String,
}

fn focus_knobs(focus: &str) -> WorldKnobs {
    let mut k = WorldKnobs::new(InspKind::Monitor);
    if matches!(focus, "C06" | "C07" | "C10" | "C11" | "C13" | "C25" | "C29") {
        // OSAKA worlds mix EOF and legacy contracts (frame-level oracles apply to both)
        k.specs.push(SpecId::OSAKA);
        k.specs.push(SpecId::OSAKA);
    }
    match focus {
        "C07" => {
            k.tune = |c, _r| {
                c.w_call = 30;
                c.w_create = 12;
                c.w_precompile = 6;
                c.w_value = 40;
            };
        }
        "C08" | "C09" => {
            k.near_max_balances = focus == "C08";
            k.tune = |c, r| {
                c.w_value = 60;
                c.w_selfdestruct = 6;
                c.w_call = 20;
                c.w_storage = if r.bool() { 20 } else { 5 };
            };
        }
        "C10" => {
            k.specs = LEGACY_SPECS.iter().cloned().filter(|s| s.is_enabled_in(SpecId::BYZANTIUM)).collect();
            k.tune = |c, _r| {
                c.w_call = 30;
                c.w_storage = 12;
                c.w_log = 6;
                c.w_transient = 6;
                c.w_selfdestruct = 4;
                c.w_create = 6;
                // CALLCODE may carry value inside a static frame (it pays the frame's own
                // account): make that combination common
                c.w_callcode = 3;
                c.w_value = c.w_value.max(30);
            };
        }
        "C11" => {
            k.tune = |c, _r| {
                c.w_mem = 20;
                c.w_call = 25;
                c.w_create = 6;
            };
        }
        "C30" => {
            k.tune = |c, _r| {
                c.w_selfdestruct = 14;
                c.w_value = 60;
                c.w_call = 20;
                c.w_create = 8;
            };
        }
        "C34" => {
            k.specs = LEGACY_SPECS.iter().cloned().filter(|s| s.is_enabled_in(SpecId::BERLIN)).collect();
            k.tune = |c, _r| {
                c.w_ext = 14;
                c.w_storage = 16;
                c.w_call = 22;
                c.w_create = 8;
                c.w_term = 5;
            };
        }
        _ => {}
    }
    k
}

impl Engine for TxSim {
    type Case = TxCase;
    fn label(&self) -> String {
        format!("txsim/{}", self.focus)
    }

    fn generate(&self, rng: &mut Rng) -> TxCase {
        let k = focus_knobs(&self.focus);
        let mut world = gen_world(rng, &k);
        let spec = world.cfg.spec_id();
        if self.focus == "C07" {
            // EIP-3860: an oversized initcode halts the *calling* frame, which would end the
            // driver before the probe
            world.cfg.code_size_limit = None;
        }
        let n_tx = rng.range(1, 4);
        let mut ops = Vec::new();
        let fault_mode = rng.below(10); // 0: db faults, 1: short circuits, 2: both, else none
        for _ in 0..n_tx {
            let mut tx = gen_tx(rng, &world);
            // F2: out-of-gas at arbitrary points comes from low gas limits and from
            // the Const gas arguments inside programs
            if rng.chance(1, 5) {
                tx.gas_limit = intrinsic_gas(spec, &tx) + rng.below(30_000);
            }
            if self.focus == "C34" && rng.chance(1, 2) && tx.access_list.is_empty() {
                // name CREATE2 addresses and their slots in the access list
                let a = *rng.pick(&world.universe);
                tx.access_list.push((a, world.slots.clone()));
            }
            let mut faults = FaultPlan::default();
            if fault_mode == 0 || fault_mode == 2 {
                faults.at_calls.insert(rng.below(12));
            }
            let mut short_circuits = vec![];
            if fault_mode == 1 || fault_mode == 2 {
                for _ in 0..rng.range(1, 2) {
                    let n_out = rng.below(70) as usize;
                    short_circuits.push(ShortCircuit {
                        hook_no: rng.below(8),
                        outcome: rng.pick(&["ok", "stop", "revert", "halt"]).to_string(),
                        output: Bytes::from(rng.bytes(n_out)),
                        gas_left_frac: rng.below(257) as u16,
                    });
                }
            }
            let coinbase = if rng.chance(1, 5) { Some(*rng.pick(&world.universe)) } else { None };
            let force_halt = if self.focus != "C07" && rng.chance(1, 8) {
                Some(ForceHalt { at_step: if rng.bool() { rng.below(12) } else { rng.below(120) }, result: rng.pick(&["stop", "revert", "halt"]).to_string(), in_step: rng.chance(1, 3) })
            } else {
                None
            };
            let input_tweak = if self.focus != "C07" && rng.chance(1, 8) { Some(InputTweak { hook_no: rng.range(1, 6), gas_frac: rng.below(257) as u16 }) } else { None };
            let skip_frame = if self.focus != "C07" && rng.chance(1, 8) { Some(SkipFrame { hook_no: rng.range(1, 6), result: rng.pick(&["stop", "revert", "halt"]).to_string() }) } else { None };
            ops.push(TxOp { tx, faults, short_circuits, force_halt, input_tweak, skip_frame, via_commit: rng.chance(1, 4), probe_expect: None, coinbase });
        }
        if self.focus == "C07" {
            // driver: sibling calls/creates with bounded gas, then the depth prober
            let prober = addr_from(world.disk.hash_salt, 7000);
            let driver = addr_from(world.disk.hash_salt, 7001);
            let pre_tangerine = !spec.is_enabled_in(SpecId::TANGERINE);
            world.disk.accounts.insert(prober, DiskAccount { nonce: 1, code: depth_prober_for(prober, pre_tangerine), ..Default::default() });
            let mut ctx = GenCtx::new(spec);
            ctx.callees = world.contracts.clone();
            ctx.addr_pool = world.universe.clone();
            ctx.slots = world.slots.clone();
            ctx.guard_pct = 0;
            ctx.w_call = 30;
            ctx.w_create = 10;
            ctx.w_precompile = 8;
            ctx.w_term = 0;
            ctx.w_selfdestruct = 0;
            ctx.w_raw = 0;
            ctx.w_value = 40;
            ctx.max_call_gas = Some(60_000);
            // initcodes for the driver's creates
            // failing initcodes must fail cheaply: a halting initcode burns the 63/64 (before
            // Tangerine: all) of the driver's gas and the probe would then be gas-bound
            ctx.initcodes = vec![wrap_initcode(&[], &[0x00])];
            if spec.is_enabled_in(SpecId::BYZANTIUM) {
                ctx.initcodes.push(Bytes::from(vec![0x60, 0x00, 0x60, 0x00, 0xfd]));
            }
            let n = rng.range(0, 12) as usize;
            let mut a = Asm::new();
            for _ in 0..n {
                gen_snippet(rng, &ctx, &mut a, 1);
            }
            // final: call the prober with all gas (pre-Tangerine: leave a margin) and return its 32 bytes
            a.push_u(32).push_u(0).push_u(0).push_u(0).push_u(0).push_addr(prober);
            if pre_tangerine {
                a.push_u(200_000).op(op::GAS).op(op::SUB);
            } else {
                a.op(op::GAS);
            }
            a.op(op::CALL).op(op::POP);
            a.push_u(32).push_u(0).op(op::RETURN);
            world.disk.accounts.insert(driver, DiskAccount { nonce: 1, balance: U256::from(1_000_000u64), code: a.bytes(), ..Default::default() });
            world.universe.push(prober);
            world.universe.push(driver);
            world.protected = vec![prober, driver];
            world.block.gas_limit = U256::MAX;
            let mut tx = TxSpec::simple(world.eoas[0], Some(driver), Bytes::new(), 4_000_000_000_000_000);
            tx.gas_price = world.block.basefee;
            // the sender must afford gas_limit * price: use price = basefee and give it funds
            world.disk.accounts.get_mut(&world.eoas[0]).unwrap().balance = U256::MAX >> 8;
            ops.push(TxOp { tx, faults: FaultPlan::default(), short_circuits: vec![], force_halt: None, input_tweak: None, skip_frame: None, via_commit: false, probe_expect: Some(1023), coinbase: None });
        }
        TxCase { world, ops }
    }

    fn panic_facts(&self, case: &TxCase) -> Vec<(String, String)> {
        // a world whose balances add up to more than 2^256-1 (C06/C08 ask for them; no chain
        // can reach it): the wrapping / saturating balance arithmetic of the known findings
        // D7a-c can then leave states revm treats as impossible
        let mut sum = alloy_primitives::U512::ZERO;
        for a in case.world.disk.accounts.values() {
            sum += crate::model::to_u512(a.balance);
        }
        let over = sum > crate::model::to_u512(U256::MAX);
        vec![("world_supply".into(), if over { "above-2^256".into() } else { "within-2^256".into() })]
    }

    fn execute(&self, case: &TxCase, stats: &mut Stats) -> Vec<Violation> {
        run_monitor_case(case, stats, &self.focus)
    }

    fn shrink(&self, case: &TxCase) -> Vec<TxCase> {
        shrink_tx_case(case)
    }
}

fn depth_prober_for(a: Address, pre_tangerine: bool) -> Bytes {
    if !pre_tangerine {
        return depth_prober(a);
    }
    // same as depth_prober, but forwards GAS - 100000 (pre-EIP-150 a CALL asking for more
    // gas than is left is an out-of-gas error)
    let mut s = Asm::new();
    s.push_u(0).push_u(0).op(op::MSTORE);
    s.push_u(32).push_u(0).push_u(0).push_u(0).push_u(0).push_addr(a);
    s.push_u(100_000).op(op::GAS).op(op::SUB).op(op::CALL);
    s.push_u(0).op(op::MLOAD).push_u(1).op(op::ADD).op(op::MUL);
    s.push_u(0).op(op::MSTORE);
    s.push_u(32).push_u(0).op(op::RETURN);
    s.bytes()
}

pub fn shrink_tx_case(case: &TxCase) -> Vec<TxCase> {
    let mut out = Vec::new();
    // fewer transactions
    for ops in shrink_vec(&case.ops) {
        if ops.is_empty() {
            continue;
        }
        let mut c = case.clone();
        c.ops = ops;
        out.push(c);
    }
    // per-op simplifications
    for (i, op) in case.ops.iter().enumerate() {
        if !op.faults.is_empty() {
            let mut c = case.clone();
            c.ops[i].faults = FaultPlan::default();
            out.push(c);
        }
        if op.force_halt.is_some() {
            let mut c = case.clone();
            c.ops[i].force_halt = None;
            out.push(c);
        }
        if op.input_tweak.is_some() {
            let mut c = case.clone();
            c.ops[i].input_tweak = None;
            out.push(c);
        }
        if op.skip_frame.is_some() {
            let mut c = case.clone();
            c.ops[i].skip_frame = None;
            out.push(c);
        }
        if !op.short_circuits.is_empty() {
            let mut c = case.clone();
            c.ops[i].short_circuits.clear();
            out.push(c);
        }
        if !op.tx.access_list.is_empty() {
            let mut c = case.clone();
            c.ops[i].tx.access_list.clear();
            out.push(c);
        }
        if op.tx.auth_list.is_some() {
            let mut c = case.clone();
            c.ops[i].tx.auth_list = None;
            out.push(c);
        }
        if !op.tx.value.is_zero() {
            let mut c = case.clone();
            c.ops[i].tx.value = U256::ZERO;
            out.push(c);
        }
        if op.coinbase.is_some() {
            let mut c = case.clone();
            c.ops[i].coinbase = None;
            out.push(c);
        }
        // disable calldata guard bytes (= disable snippets)
        if op.tx.to.is_some() {
            for j in 0..op.tx.data.len() {
                if op.tx.data[j] != 0 {
                    let mut c = case.clone();
                    let mut d = op.tx.data.to_vec();
                    d[j] = 0;
                    c.ops[i].tx.data = Bytes::from(d);
                    out.push(c);
                }
            }
            if !op.tx.data.is_empty() {
                let mut c = case.clone();
                let mut d = op.tx.data.to_vec();
                d.pop();
                c.ops[i].tx.data = Bytes::from(d);
                out.push(c);
            }
        }
    }
    // replace a contract's code by STOP / drop accounts nobody needs
    for (a, acc) in case.world.disk.accounts.iter() {
        if case.world.protected.contains(a) {
            continue;
        }
        if acc.code.len() > 1 && !acc.code.starts_with(&[0xef]) {
            let mut c = case.clone();
            c.world.disk.accounts.get_mut(a).unwrap().code = Bytes::from(vec![0x00]);
            out.push(c);
        }
        if !acc.storage.is_empty() {
            let mut c = case.clone();
            c.world.disk.accounts.get_mut(a).unwrap().storage.clear();
            out.push(c);
        }
    }
    // simpler environment
    if case.world.cfg.stack != StackKind::Raw {
        let mut c = case.clone();
        c.world.cfg.stack = StackKind::Raw;
        out.push(c);
    }
    if case.world.cfg.lazy_code {
        let mut c = case.clone();
        c.world.cfg.lazy_code = false;
        out.push(c);
    }
    if case.world.cfg.code_size_limit.is_some() {
        let mut c = case.clone();
        c.world.cfg.code_size_limit = None;
        out.push(c);
    }
    out
}

/// EIP-7702 tuples that pass steps 1-3 (chain id, nonce range, recovery)
pub fn valid_authorities(tx: &TxSpec, chain_id: u64) -> Vec<Address> {
    tx.auth_list
        .as_ref()
        .map(|l| {
            l.iter()
                .filter(|a| (a.chain_id == 0 || a.chain_id == chain_id) && a.nonce != u64::MAX)
                .filter_map(|a| a.authority)
                .collect()
        })
        .unwrap_or_default()
}

fn u512(v: U256) -> U512 {
    to_u512(v)
}

pub fn run_monitor_case(case: &TxCase, stats: &mut Stats, focus: &str) -> Vec<Violation> {
    let w = &case.world;
    let spec = w.cfg.spec_id();
    let state_clear = spec.is_enabled_in(SpecId::SPURIOUS_DRAGON);
    let london = spec.is_enabled_in(SpecId::LONDON);
    let mut sys = Sys::new(&w.cfg, w.disk.clone(), &w.block);
    let mut block = w.block.clone();
    let mut out: Vec<Violation> = Vec::new();
    let mut fp = Hasher64::new();
    fp.s(&w.cfg.spec);
    let mut universe: Vec<Address> = w.universe.clone();
    universe.extend(w.disk.accounts.keys().cloned());
    universe.sort();
    universe.dedup();
    {
        let m = sys.monitor().expect("monitor mode");
        m.check_frame_snapshots = matches!(focus, "C06" | "C08" | "C25" | "C07");
        // (the access-set model covers Berlin..Prague, the range C34 states; EOF frames are not modelled)
        m.check_access = matches!(focus, "C34" | "C25") && spec != SpecId::OSAKA;
        m.check_memory = matches!(focus, "C11" | "C25");
        m.trace = std::env::var("VERIF_TRACE").is_ok();
    }
    let trace = std::env::var("VERIF_TRACE").is_ok();
    let mut nontrivial = false;
    for (i, op) in case.ops.iter().enumerate() {
        let tx = &op.tx;
        if let Some(cb) = op.coinbase {
            // a new block with another beneficiary on the same Evm instance
            block.coinbase = cb;
            block.number += 1;
            sys.set_block(&block);
            stats.inc("probe.coinbase_changed_between_txs");
        }
        // ---- pre-state (through the stack, faults disarmed)
        sys.bottom.disarm();
        let pre = match sys.logical_state(&universe, &w.slots, state_clear) {
            Ok(d) => d,
            Err(e) => return vec![Violation::new("C25", "harness", &[], format!("harness read failed: {e}"))],
        };
        let ctx = TxCtx {
            spec: Some(spec),
            caller: tx.caller,
            to: tx.to,
            coinbase: block.coinbase,
            access_list: tx.access_list.clone(),
            authorities: valid_authorities(tx, w.cfg.chain_id),
        };
        sys.monitor().unwrap().begin_tx(ctx, op.short_circuits.clone());
        sys.monitor().unwrap().force_halt = op.force_halt.clone();
        sys.monitor().unwrap().input_tweak = op.input_tweak.clone();
        sys.monitor().unwrap().skip_frame = op.skip_frame.clone();
        sys.bottom.arm(op.faults.clone());
        let fired_before = sys.bottom.fired();
        // ---- run
        let (outcome, state) = if op.via_commit {
            (sys.transact_commit(tx), None)
        } else {
            match sys.transact(tx) {
                Ok(rs) => (TxOutcome::Ok(rs.result), Some(rs.state)),
                Err(o) => (o, None),
            }
        };
        let fault_fired = sys.bottom.fired() > fired_before;
        sys.bottom.disarm();
        if fault_fired {
            stats.inc("fault.F1_db_error_fired");
        }
        stats.inc(&format!("outcome.{}", outcome.class().split(':').next().unwrap_or("")));
        fp.s(&outcome.class());
        // ---- monitor results
        let depth_now = sys.evm().context.evm.journaled_state.depth();
        let (mon_viol, mon_fp, top_gas, burned, ether_touched, steps, max_depth, sd_wrapped) = {
            let m = sys.monitor().unwrap();
            if matches!(outcome, TxOutcome::Ok(_)) {
                m.end_tx(depth_now);
            }
            let v = std::mem::take(&mut m.violations);
            for (k, n) in std::mem::take(&mut m.counters) {
                stats.add(&k, n);
            }
            (v, m.fp, m.top_gas.take(), std::mem::take(&mut m.burned_total), std::mem::take(&mut m.ether_touched), std::mem::replace(&mut m.steps, 0), std::mem::replace(&mut m.max_depth, 0), std::mem::take(&mut m.sd_credit_wrapped))
        };
        stats.add("steps.executed", steps);
        if max_depth >= 2 {
            stats.inc("probe.nested_frames");
        }
        if max_depth >= 8 {
            stats.inc("probe.depth_ge8");
        }
        if fault_fired && max_depth >= 2 {
            stats.inc("fault.F1_fired_inside_nested_frame");
        }
        fp.u(mon_fp);
        out.extend(mon_viol);
        let res = match &outcome {
            TxOutcome::Ok(r) => r.clone(),
            TxOutcome::Db(_) => {
                // F1: the transaction aborted; nothing may have been committed
                let post = sys.logical_state(&universe, &w.slots, state_clear).unwrap();
                if post != pre {
                    out.push(Violation::new("C31", "C31.abort-commits-nothing", &[], format!("tx {i} aborted by a database fault but the state changed")));
                }
                continue;
            }
            TxOutcome::Invalid(_) | TxOutcome::Other(_) => continue,
        };
        nontrivial = true;
        // addresses that first appear in the output (computed at run time): read their
        // pre-state through the stack now, before the output is committed
        let mut uni2 = universe.clone();
        let mut pre2 = pre.clone();
        if let Some(st) = &state {
            let new: Vec<Address> = st.keys().filter(|a| !universe.contains(a)).cloned().collect();
            if !new.is_empty() {
                let extra = sys.logical_state(&new, &w.slots, state_clear).unwrap();
                pre2.accounts.extend(extra.accounts);
                uni2.extend(new);
                uni2.sort();
                uni2.dedup();
            }
        }
        if let Some(st) = state.clone() {
            sys.commit(st);
        }
        // ---- post-state
        let post = sys.logical_state(&uni2, &w.slots, state_clear).unwrap();
        universe = uni2;

        let gas_used = res.gas_used();
        let refunded = match &res {
            ExecutionResult::Success { gas_refunded, .. } => *gas_refunded,
            _ => 0,
        };
        let eff = effective_gas_price(spec, tx, &block);
        let bfee = blob_fee(spec, tx, &block);

        // ================= C07 probe
        if let Some(expect) = op.probe_expect {
            stats.inc("probe.depth_probe_ran");
            let got = match &res {
                ExecutionResult::Success { output, .. } => {
                    let d = output.data();
                    if d.len() == 32 { Some(U256::from_be_slice(d)) } else { None }
                }
                _ => None,
            };
            // the probe measures the depth limit only if it ran into it: a history that leaves
            // it too little gas (colliding CREATE2s each burn 63/64 of the driver's gas, as the
            // protocol says) ends the recursion by out-of-gas before any CallTooDeep
            let too_deep_seen = sys.monitor().map(|m| m.too_deep_seen).unwrap_or(true);
            let short = got.map(|g| g < U256::from(expect)).unwrap_or(true);
            if short && !too_deep_seen {
                stats.inc("probe.depth_probe_gas_bound");
            } else if got != Some(U256::from(expect)) {
                let class = match got {
                    None => "no-output",
                    Some(g) if g < U256::from(expect) => "less",
                    _ => "more",
                };
                out.push(Violation::new("C07", "C07.probe-1024", &[("expected", expect.to_string()), ("got", class.into())], format!("depth probe after sibling calls returned {got:?}, expected {expect} ({})", outcome.class())));
            }
        }

        // ================= C13 at transaction level: the final refund is capped
        if focus == "C13" {
            let spent = gas_used + refunded;
            let q = if london { 5 } else { 2 };
            if refunded > spent / q {
                out.push(Violation::new("C13", "C13.final-refund-cap", &[("quotient", q.to_string())], format!("tx {i}: final refund {refunded} exceeds spent {spent} / {q}")));
            }
            if gas_used > tx.gas_limit {
                out.push(Violation::new("C13", "C13.final-refund-cap", &[("quotient", "limit".into())], format!("tx {i}: gas used {gas_used} exceeds the limit {}", tx.gas_limit)));
            }
        }
        // ================= C09 gas rules
        if matches!(focus, "C09" | "C08" | "C25") {
            let intrinsic = intrinsic_gas(spec, tx);
            let floor = floor_gas(spec, tx);
            let spent = gas_used + refunded;
            let q = if london { 5 } else { 2 };
            let mut c9 = |cond: bool, name: &str, msg: String| {
                if !cond {
                    out.push(Violation::new("C09", "C09.gas-rules", &[("rule", name.to_string())], format!("tx {i}: {msg}")));
                }
            };
            // EIP-7702: the per-authority refund is granted by the execution specification
            // whatever the outcome, so a halted or reverted set-code transaction may use less
            // than its limit / than the intrinsic gas: those rules are not applied to it
            let has_auth = tx.auth_list.is_some();
            c9(has_auth || spent >= intrinsic, "intrinsic<=spent", format!("gas spent {spent} < intrinsic {intrinsic}"));
            c9(spent <= tx.gas_limit, "spent<=limit", format!("gas spent {spent} > gas limit {}", tx.gas_limit));
            c9(gas_used <= tx.gas_limit, "used<=limit", format!("gas used {gas_used} > gas limit {}", tx.gas_limit));
            c9(gas_used >= floor, "floor<=used", format!("gas used {gas_used} < calldata floor {floor}"));
            c9(refunded <= spent / q, "refund-cap", format!("refund {refunded} > spent {spent} / {q}"));
            if matches!(res, ExecutionResult::Halt { .. }) {
                c9(has_auth || gas_used == tx.gas_limit, "halt-uses-all", format!("halted transaction used {gas_used} of {}", tx.gas_limit));
                stats.inc("probe.halted_tx");
            }
            // exact reconstruction from the top frame's gas as seen by the monitor
            if let Some((remaining, frame_refund, ok, revert)) = top_gas {
                if tx.auth_list.is_none() {
                    let spent_x = if ok || revert { tx.gas_limit - remaining.min(tx.gas_limit) } else { tx.gas_limit };
                    let refund_x = if ok { (frame_refund.max(0) as u64).min(spent_x / q) } else { 0 };
                    let used_x = (spent_x - refund_x).max(floor);
                    let refund_rep = if used_x == floor && spent_x - refund_x < floor { 0 } else { refund_x };
                    c9(gas_used == used_x, "used-exact", format!("gas used {gas_used}, reconstruction from the top frame gives {used_x} (remaining {remaining}, frame refund {frame_refund}, ok={ok}, revert={revert})"));
                    if ok {
                        c9(refunded == refund_rep, "refund-exact", format!("refund {refunded}, reconstruction gives {refund_rep}"));
                    }
                    if !ok && frame_refund != 0 {
                        stats.inc("probe.failed_top_frame_had_refund");
                    }
                    if ok && (frame_refund.max(0) as u64) > spent_x / q {
                        stats.inc("probe.refund_capped");
                    }
                    if floor > 0 && spent_x - refund_x < floor {
                        stats.inc("probe.floor_binding");
                    }
                }
            }
            if tx.gas_limit == intrinsic {
                stats.inc("probe.gas_limit_exactly_intrinsic");
            }
            // payment equations, only when no other ether flow touched the party
            let sender_clean = !ether_touched.contains(&tx.caller) && tx.caller != block.coinbase && tx.to != Some(tx.caller);
            // a short-circuited top frame never transfers the transaction's value
            let top_short_circuited = op.short_circuits.iter().any(|s| s.hook_no == 0);
            let top_ok = matches!(res, ExecutionResult::Success { .. }) && !top_short_circuited;
            if sender_clean {
                let before = u512(pre2.balance(&tx.caller));
                let after = u512(post.balance(&tx.caller));
                let mut cost = u512(eff) * U512::from(gas_used) + u512(bfee);
                if top_ok {
                    cost += u512(tx.value);
                }
                stats.inc("probe.sender_equation_evaluated");
                if before < cost || before - cost != after {
                    out.push(Violation::new("C09", "C09.sender-pays", &[], format!("tx {i}: sender balance {before} -> {after}, expected a debit of {cost} (price {eff} x gas {gas_used} + blob {bfee} + value)")));
                }
            } else {
                stats.inc("probe.sender_equation_not_evaluated");
            }
            let cb = block.coinbase;
            let cb_clean = !ether_touched.contains(&cb) && cb != tx.caller && tx.to != Some(cb);
            if cb_clean {
                let before = u512(pre2.balance(&cb));
                let after = u512(post.balance(&cb));
                let price = if london { eff.saturating_sub(block.basefee) } else { eff };
                let reward = u512(price) * U512::from(gas_used);
                stats.inc("probe.coinbase_equation_evaluated");
                // a coinbase that would exceed 2^256 cannot hold the reward (unspecified); skip
                if before + reward < (U512::from(1u64) << 256) && before + reward != after {
                    out.push(Violation::new("C09", "C09.beneficiary-receives", &[], format!("tx {i}: coinbase balance {before} -> {after}, expected +{reward}")));
                }
            }
        }

        // ================= C08 conservation
        if matches!(focus, "C08" | "C25" | "C09") {
            if let Some(st) = &state {
                let sum_before = total_balance(&pre2);
                let sum_after = total_balance(&post);
                let mut expected = sum_before;
                let mut burn = U512::ZERO;
                if london {
                    burn += u512(block.basefee) * U512::from(gas_used);
                }
                burn += u512(bfee);
                // ether held at the end of the transaction by accounts it deletes
                if trace {
                    eprintln!("C08 tx {i}: gas_used {gas_used} eff {eff} burned {burned} sd_wrapped {sd_wrapped}");
                    for (a, acc) in st.iter() {
                        eprintln!("  {a} selfdestructed={} result-balance={} pre={} post={}", acc.is_selfdestructed(), acc.info.balance, pre2.balance(a), post.balance(a));
                    }
                }
                for (_, acc) in st.iter() {
                    if acc.is_selfdestructed() {
                        burn += u512(acc.info.balance);
                    }
                }
                // self-destructs naming the contract itself (balance burned at that moment)
                burn += burned;
                if !burned.is_zero() {
                    stats.inc("probe.selfdestruct_to_self_burn");
                }
                let ok = expected >= burn && {
                    expected -= burn;
                    expected == sum_after
                };
                stats.inc("probe.conservation_evaluated");
                if !ok {
                    let dir = if sum_after + burn > sum_before { "created" } else { "destroyed" };
                    // narrow facts for known defect classes
                    // narrow facts for the known "total supply above 2^256" defect class
                    // (balances as the transaction left them: a saturated beneficiary or sender
                    // that the same transaction also self-destructed is gone from the disk)
                    let end_balance = |a: &Address| st.get(a).map(|acc| acc.info.balance).unwrap_or_else(|| post.balance(a));
                    let site = if sd_wrapped {
                        "selfdestruct-credit-wrap"
                    } else if end_balance(&block.coinbase) == U256::MAX {
                        "reward-saturation"
                    } else if end_balance(&tx.caller) == U256::MAX {
                        "reimburse-saturation"
                    } else {
                        "none"
                    };
                    out.push(Violation::new("C08", "C08.conservation", &[("direction", dir.into()), ("site", site.into())], format!("tx {i}: total balance {sum_before} -> {sum_after}, expected burn {burn} ({})", outcome.class())));
                }
            }
        }
    }
    if nontrivial {
        stats.fingerprint(fp.finish());
    }
    if stats.samples.is_empty() {
        stats.samples.push(json!({
            "spec": w.cfg.spec, "stack": format!("{:?}", w.cfg.stack),
            "contracts": w.contracts.len(),
            "txs": case.ops.iter().map(|o| json!({"to": o.tx.to, "gas_limit": o.tx.gas_limit, "data": o.tx.data, "faults": o.faults.at_calls, "short_circuits": o.short_circuits.len()})).collect::<Vec<_>>()
        }));
    }
    let mut seen = std::collections::BTreeSet::new();
    out.retain(|v| seen.insert(v.class_key()));
    out
}

