//! Optimism mode (C33, `--features optimism`): regular, deposit and system transactions
//! through the Optimism handler over the simulated disk; five-party fee conservation for
//! regular transactions, mint / nonce persistence for deposits (also when they fail at an
//! arbitrary point or when the database fails).
use crate::asm::GenCtx;
use crate::core::*;
use crate::disk::*;
use crate::model::*;
use crate::sys::*;
use crate::world::*;
use alloy_primitives::U512;
use revm::optimism::{L1BlockInfo, BASE_FEE_RECIPIENT, L1_BLOCK_CONTRACT, L1_FEE_RECIPIENT};
use revm::primitives::{address, Address, Bytes, ExecutionResult, SpecId, B256, U256};
use revm::{Database, Evm, Handler};
use serde::{Deserialize, Serialize};
use serde_json::json;

pub const OPERATOR_FEE_RECIPIENT: Address = address!("420000000000000000000000000000000000001B");

#[derive(Clone, Debug, Serialize, Deserialize)]
pub struct OpTx {
    pub tx: TxSpec,
    /// deposit: source hash present
    pub deposit: bool,
    pub mint: Option<u128>,
    pub system: bool,
    pub enveloped: Bytes,
    #[serde(default)]
    pub faults: FaultPlan,
}

#[derive(Clone, Debug, Serialize, Deserialize)]
pub struct OpCase {
    pub world: World,
    pub txs: Vec<OpTx>,
}

pub struct OpSim;

const OP_SPECS: &[SpecId] = &[SpecId::BEDROCK, SpecId::REGOLITH, SpecId::CANYON, SpecId::ECOTONE, SpecId::FJORD, SpecId::GRANITE, SpecId::HOLOCENE, SpecId::ISTHMUS];

fn word(parts: &[(usize, &[u8])]) -> U256 {
    let mut w = [0u8; 32];
    for (off, b) in parts {
        w[*off..off + b.len()].copy_from_slice(b);
    }
    U256::from_be_bytes(w)
}

impl Engine for OpSim {
    type Case = OpCase;
    fn label(&self) -> String {
        "opsim/C33".into()
    }

    fn generate(&self, rng: &mut Rng) -> OpCase {
        let mut k = WorldKnobs::new(InspKind::None);
        k.specs = OP_SPECS.to_vec();
        k.stacks = vec![StackKind::Raw, StackKind::Cache, StackKind::StateBundle];
        k.max_contracts = 3;
        k.tune = |c: &mut GenCtx, _r: &mut Rng| {
            // only the transaction's own value moves ether
            c.w_value = 0;
            c.w_selfdestruct = 0;
            c.w_create = 2;
            c.w_raw = 0;
            // the reward twins run without a monitor that could tell when a program looks at
            // a fee party's balance: values read are dropped, not stored
            c.observe = false;
        };
        let mut world = gen_world(rng, &k);
        world.cfg.code_size_limit = None;
        let spec = world.cfg.spec_id();
        // balances below 2^128 so that saturating arithmetic is not the subject
        for a in world.disk.accounts.values_mut() {
            if a.balance > U256::from(u128::MAX >> 8) {
                a.balance = U256::from(10u64).pow(U256::from(24));
            }
        }
        world.block.coinbase = addr_from(world.disk.hash_salt, 999);
        // L1 block contract storage (Bedrock and Ecotone layouts, operator fee scalars)
        let mut l1 = DiskAccount { nonce: 1, code: Bytes::from(vec![0x00]), ..Default::default() };
        l1.storage.insert(U256::from(1), U256::from(rng.below(2_000_000_000)));
        l1.storage.insert(U256::from(5), U256::from(rng.below(3000)));
        l1.storage.insert(U256::from(6), U256::from(rng.below(2_000_000)));
        l1.storage.insert(U256::from(7), U256::from(rng.below(1_000_000_000)));
        if rng.chance(5, 6) {
            let base = (rng.below(1 << 20) as u32).to_be_bytes();
            let blob = (rng.below(1 << 20) as u32).to_be_bytes();
            l1.storage.insert(U256::from(3), word(&[(16, &base), (20, &blob)]));
        }
        let opscalar = (if rng.chance(1, 4) { 0 } else { rng.below(5_000_000) } as u32).to_be_bytes();
        let opconst = (if rng.chance(1, 4) { 0 } else { rng.below(1_000_000) }).to_be_bytes();
        l1.storage.insert(U256::from(8), word(&[(20, &opscalar), (24, &opconst)]));
        l1.storage.retain(|_, v| !v.is_zero());
        world.disk.accounts.insert(L1_BLOCK_CONTRACT, l1);
        for v in [L1_FEE_RECIPIENT, BASE_FEE_RECIPIENT, OPERATOR_FEE_RECIPIENT] {
            if rng.bool() {
                world.disk.accounts.insert(v, DiskAccount { balance: U256::from(rng.below(1_000_000)), ..Default::default() });
            }
            world.universe.push(v);
        }
        world.universe.push(L1_BLOCK_CONTRACT);
        let n = rng.range(1, 4);
        let mut txs = Vec::new();
        let fault_run = rng.chance(1, 4);
        for _ in 0..n {
            // (access lists and, from Isthmus, EIP-7702 authorization lists stay: both are
            // OP Stack transaction features and both feed the gas refund the fee split uses)
            let mut tx = gen_tx(rng, &world);
            // the OP Stack has no type-3 transactions and a deposit (type 0x7E) has no blob
            // fields: a blob-carrying env is outside C33's domain (revm burns its blob fee as
            // on L1, which is no party of the five-way split) - see DESIGN.md section 0.3
            tx.blob_hashes.clear();
            tx.max_fee_per_blob_gas = None;
            // parties of the fee flows are not callees
            if tx.to.is_none() || !world.contracts.contains(&tx.to.unwrap()) && !world.eoas.contains(&tx.to.unwrap()) {
                tx.to = Some(*rng.pick(&world.contracts));
            }
            let deposit = rng.chance(2, 5);
            let system = deposit && !spec.is_enabled_in(SpecId::REGOLITH) && rng.chance(1, 3);
            let mut mint = None;
            if deposit {
                // a deposit (type 0x7E) has neither an access list nor an authorization list
                tx.auth_list = None;
                tx.access_list.clear();
                tx.gas_price = U256::ZERO;
                tx.priority_fee = None;
                if rng.chance(3, 4) {
                    mint = Some(rng.below(1_000_000_000_000) as u128);
                }
                // F2: halt at an arbitrary point through a low gas limit (never below intrinsic)
                if rng.chance(1, 2) {
                    tx.gas_limit = intrinsic_gas(spec, &tx) + rng.below(40_000);
                }
            }
            let ne = rng.range(1, 300) as usize;
            let mut enveloped = rng.bytes(ne);
            if rng.chance(1, 3) {
                for b in enveloped.iter_mut().step_by(2) {
                    *b = 0;
                }
            }
            if enveloped[0] == 0x7f {
                enveloped[0] = 0x02;
            }
            let mut faults = FaultPlan::default();
            if fault_run && rng.chance(1, 2) {
                faults.at_calls.insert(rng.below(16));
            }
            txs.push(OpTx { tx, deposit, mint, system, enveloped: Bytes::from(enveloped), faults });
        }
        OpCase { world, txs }
    }

    fn execute(&self, case: &OpCase, stats: &mut Stats) -> Vec<Violation> {
        let w = &case.world;
        let spec = w.cfg.spec_id();
        let sc = true;
        let bottom = FaultyDb::new(w.disk.clone());
        {
            let mut i = bottom.0.borrow_mut();
            i.lazy_code = w.cfg.lazy_code;
            i.empty_as_none = w.cfg.empty_as_none;
            i.state_clear = true;
        }
        let db = AnyDb::build(w.cfg.stack, bottom.clone(), true);
        let mut evm = Evm::builder().with_db(db).with_external_context(make_insp(InspKind::None)).with_handler(Handler::optimism_with_spec(spec, true)).build();
        apply_block(&mut evm.context.evm.env, &w.block, spec);
        evm.context.evm.env.cfg.chain_id = 1;
        let mut sys = Sys { evm: Some(evm), bottom: bottom.clone(), cfg: w.cfg.clone() };
        let mut universe = w.universe.clone();
        universe.extend(w.disk.accounts.keys().cloned());
        universe.sort();
        universe.dedup();
        let mut out = Vec::new();
        let mut fp = Hasher64::new();
        fp.s(&w.cfg.spec);
        let london = spec.is_enabled_in(SpecId::LONDON);
        for (i, op) in case.txs.iter().enumerate() {
            bottom.disarm();
            let pre = sys.logical_state(&universe, &w.slots, sc).unwrap();
            // expected L1 cost from the public helper, on the same data
            let expected_l1 = if op.deposit {
                U256::ZERO
            } else {
                // (the L1 block contract's slots are not part of the logical read sweep: use the
                // disk itself; nothing in these histories writes to that contract)
                let mut copy = FaultyDb::new(bottom.disk());
                match L1BlockInfo::try_fetch(&mut copy, spec) {
                    Ok(mut info) => info.calculate_tx_l1_cost(&op.enveloped, spec),
                    Err(_) => U256::ZERO,
                }
            };
            {
                let env = &mut sys.evm().context.evm.env;
                apply_tx(env, &op.tx);
                env.tx.optimism.source_hash = if op.deposit { Some(B256::with_last_byte(1)) } else { None };
                env.tx.optimism.mint = op.mint;
                env.tx.optimism.is_system_transaction = Some(op.system);
                env.tx.optimism.enveloped_tx = Some(op.enveloped.clone());
            }
            bottom.arm(op.faults.clone());
            let fired_before = bottom.fired();
            let r = classify(sys.evm().transact());
            let fault_fired = bottom.fired() > fired_before;
            bottom.disarm();
            if fault_fired {
                stats.inc("fault.F1_db_error_fired");
            }
            let kind = if op.system { "system" } else if op.deposit { "deposit" } else { "regular" };
            let (res, state) = match r {
                Ok(rs) => (rs.result, rs.state),
                Err(o) => {
                    stats.inc(&format!("outcome.{kind}.{}", o.class().split(':').next().unwrap_or("")));
                    fp.s(&o.class());
                    // nothing committed
                    continue;
                }
            };
            let mut uni2 = universe.clone();
            let new: Vec<Address> = state.keys().filter(|a| !universe.contains(a)).cloned().collect();
            let mut pre2 = pre.clone();
            if !new.is_empty() {
                let extra = sys.logical_state(&new, &w.slots, sc).unwrap();
                pre2.accounts.extend(extra.accounts);
                uni2.extend(new);
                uni2.sort();
                uni2.dedup();
            }
            sys.commit(state);
            let post = sys.logical_state(&uni2, &w.slots, sc).unwrap();
            universe = uni2;
            let class = match &res {
                ExecutionResult::Success { .. } => "success",
                ExecutionResult::Revert { .. } => "revert",
                ExecutionResult::Halt { .. } => "halt",
            };
            stats.inc(&format!("outcome.{kind}.{class}"));
            fp.s(kind).s(class).b(&op.tx.data).u(res.gas_used()).u(op.enveloped.len() as u64);
            let d = |a: &Address| -> (U512, U512) { (to_u512(pre2.balance(a)), to_u512(post.balance(a))) };
            let sender = op.tx.caller;
            if !op.deposit {
                // ---- five-party conservation
                let parties = [w.block.coinbase, BASE_FEE_RECIPIENT, L1_FEE_RECIPIENT, OPERATOR_FEE_RECIPIENT];
                let clean = !parties.contains(&sender) && op.tx.to.map(|t| !parties.contains(&t) && t != sender).unwrap_or(true);
                if clean {
                    let (sb, sa) = d(&sender);
                    let mut received = U512::ZERO;
                    let mut ok = true;
                    for p in parties {
                        let (b, a) = d(&p);
                        if a < b {
                            ok = false;
                        } else {
                            received += a - b;
                        }
                    }
                    let value = if class == "success" { to_u512(op.tx.value) } else { U512::ZERO };
                    stats.inc("probe.regular_conservation_evaluated");
                    if spec.is_enabled_in(SpecId::ISTHMUS) && !bottom.disk().storage(&L1_BLOCK_CONTRACT, &U256::from(8)).is_zero() {
                        stats.inc("probe.isthmus_nonzero_operator_fee");
                    }
                    if !ok || sb < sa || sb - sa != received + value {
                        let debit = if sb >= sa { sb - sa } else { U512::ZERO };
                        let dir = if debit < received + value { "sender-underpays" } else { "sender-overpays" };
                        out.push(Violation::new(
                            "C33",
                            "C33.non-deposit-conservation",
                            &[("direction", dir.into()), ("spec_isthmus", spec.is_enabled_in(SpecId::ISTHMUS).to_string()), ("fault_fired", fault_fired.to_string())],
                            format!("tx {i} ({class}): sender debit {debit}, value {value} + beneficiary/vault credits {received} (spec {})", w.cfg.spec),
                        ));
                    }
                    // L1 vault receives exactly the L1 cost of the enveloped transaction
                    let (lb, la) = d(&L1_FEE_RECIPIENT);
                    if la < lb || la - lb != to_u512(expected_l1) {
                        out.push(Violation::new("C33", "C33.l1-cost", &[("fault_fired", fault_fired.to_string())], format!("tx {i}: L1 fee vault received {}, calculate_tx_l1_cost says {expected_l1}", if la >= lb { la - lb } else { U512::ZERO })));
                    }
                    // base fee vault: base fee x gas used
                    let (bb, ba) = d(&BASE_FEE_RECIPIENT);
                    let want = if london { to_u512(w.block.basefee) * U512::from(res.gas_used()) } else { U512::ZERO };
                    if ba < bb || ba - bb != want {
                        out.push(Violation::new("C33", "C33.base-fee-vault", &[], format!("tx {i}: base fee vault received {}, expected {want}", if ba >= bb { ba - bb } else { U512::ZERO })));
                    }
                }
            } else {
                // ---- deposit: supply grows by exactly the mint
                let mint = U512::from(op.mint.unwrap_or(0));
                let before = total_balance(&pre2);
                let after = total_balance(&post);
                stats.inc("probe.deposit_supply_evaluated");
                if after != before + mint {
                    out.push(Violation::new("C33", "C33.deposit-mint", &[("class", class.into()), ("fault_fired", fault_fired.to_string())], format!("tx {i} (deposit, {class}): total supply {before} -> {after}, mint {mint}")));
                }
                if class != "success" {
                    // failed during execution: mint and nonce bump persist, nothing else changes
                    stats.inc(&format!("probe.failed_deposit_{class}"));
                    let mut want = pre2.clone();
                    let e = want.accounts.entry(sender).or_default();
                    e.balance = e.balance.saturating_add(U256::from(op.mint.unwrap_or(0)));
                    e.nonce += 1;
                    let got = post.clone();
                    let norm = |d: &SimDisk| crate::e3_state::normalize(d, true);
                    if norm(&want) != norm(&got) {
                        let who = want.accounts.keys().chain(got.accounts.keys()).find(|k| want.accounts.get(*k) != got.accounts.get(*k)).cloned();
                        out.push(Violation::new(
                            "C33",
                            "C33.deposit-persistence",
                            &[("class", class.into()), ("fault_fired", fault_fired.to_string()), ("who", if who == Some(sender) { "sender".into() } else { "other".to_string() })],
                            format!("tx {i} (deposit, {class}): after a failed deposit only the sender's mint and nonce bump may persist; differs at {who:?}: expected {:?}, got {:?}", who.and_then(|k| want.accounts.get(&k).cloned()), who.and_then(|k| got.accounts.get(&k).cloned())),
                        ));
                    }
                }
            }
            if out.len() >= 3 {
                break;
            }
        }
        stats.fingerprint(fp.finish());
        if stats.samples.is_empty() {
            stats.samples.push(json!({"spec": w.cfg.spec, "stack": format!("{:?}", w.cfg.stack), "txs": case.txs.iter().map(|t| json!({"deposit": t.deposit, "system": t.system, "mint": t.mint.map(|m| m.to_string()), "gas_limit": t.tx.gas_limit, "enveloped_len": t.enveloped.len(), "faults": t.faults.at_calls})).collect::<Vec<_>>()}));
        }
        let mut seen = std::collections::BTreeSet::new();
        out.retain(|v| seen.insert(v.class_key()));
        out
    }

    fn shrink(&self, case: &OpCase) -> Vec<OpCase> {
        let mut out = Vec::new();
        for txs in shrink_vec(&case.txs) {
            if txs.is_empty() {
                continue;
            }
            let mut c = case.clone();
            c.txs = txs;
            out.push(c);
        }
        for (i, t) in case.txs.iter().enumerate() {
            if !t.faults.is_empty() {
                let mut c = case.clone();
                c.txs[i].faults = FaultPlan::default();
                out.push(c);
            }
            if !t.tx.data.is_empty() {
                let mut c = case.clone();
                c.txs[i].tx.data = Bytes::new();
                out.push(c);
            }
            if !t.tx.value.is_zero() {
                let mut c = case.clone();
                c.txs[i].tx.value = U256::ZERO;
                out.push(c);
            }
            if t.enveloped.len() > 1 {
                let mut c = case.clone();
                c.txs[i].enveloped = Bytes::from(vec![0x02]);
                out.push(c);
            }
        }
        if case.world.cfg.stack != StackKind::Raw {
            let mut c = case.clone();
            c.world.cfg.stack = StackKind::Raw;
            out.push(c);
        }
        out
    }
}

// ---------------------------------------------------------------- C22 on Optimism

/// C22, Optimism half: the same history on a reward-on and a reward-off Optimism EVM with
/// handler reconfigurations in between. With rewards off neither the beneficiary nor the
/// three fee vaults may receive anything; results and all other accounts must be equal.
#[derive(Clone, Debug, Serialize, Deserialize)]
pub struct OpRewardCase {
    pub base: OpCase,
    /// reconfiguration ops applied (to both twins) before transaction i
    pub reconf: Vec<Vec<crate::e1_twin::HOp>>,
}

pub struct OpRewardSim;

fn build_op_sys(w: &World, reward: bool) -> Sys {
    let spec = w.cfg.spec_id();
    let bottom = FaultyDb::new(w.disk.clone());
    {
        let mut i = bottom.0.borrow_mut();
        i.lazy_code = w.cfg.lazy_code;
        i.empty_as_none = w.cfg.empty_as_none;
        i.state_clear = true;
    }
    let db = AnyDb::build(w.cfg.stack, bottom.clone(), true);
    let mut evm = Evm::builder().with_db(db).with_external_context(make_insp(InspKind::None)).with_handler(Handler::optimism_with_spec(spec, reward)).build();
    apply_block(&mut evm.context.evm.env, &w.block, spec);
    evm.context.evm.env.cfg.chain_id = 1;
    // Before Ecotone revm reads the L1 block contract's storage without loading the account
    // first; it relies (documented in `L1BlockInfo::try_fetch`) on the block's first
    // transaction, the L1 attributes deposit, having loaded it. The histories here start
    // anywhere in a block, so the account is loaded the way that deposit would have.
    let _ = evm.context.evm.db.basic(L1_BLOCK_CONTRACT);
    Sys { evm: Some(evm), bottom, cfg: w.cfg.clone() }
}

impl Engine for OpRewardSim {
    type Case = OpRewardCase;
    fn label(&self) -> String {
        "opsim/C22".into()
    }

    fn generate(&self, rng: &mut Rng) -> OpRewardCase {
        use crate::e1_twin::HOp;
        let mut base = OpSim.generate(rng);
        for t in base.txs.iter_mut() {
            // no database faults: the reward-on twin loads four more accounts
            t.faults = FaultPlan::default();
        }
        let mut reconf = Vec::new();
        for _ in 0..base.txs.len() {
            let mut ops = Vec::new();
            for _ in 0..rng.below(3) {
                ops.push(match rng.below(5) {
                    0 => HOp::SetSpec { spec: spec_name(*rng.pick(OP_SPECS)), how: rng.below(2) as u8 },
                    1 => HOp::AppendNoopRegister,
                    2 => HOp::PopRegister,
                    3 => HOp::Rebuild,
                    _ => HOp::AdvanceBlock { by: rng.range(1, 3) },
                });
            }
            reconf.push(ops);
        }
        OpRewardCase { base, reconf }
    }

    fn execute(&self, case: &OpRewardCase, stats: &mut Stats) -> Vec<Violation> {
        use crate::e1_twin::{apply_reconfig, HOp};
        let w = &case.base.world;
        let mut on = build_op_sys(w, true);
        let mut off = build_op_sys(w, false);
        let (mut block_on, mut block_off) = (w.block.clone(), w.block.clone());
        let (mut noop_on, mut noop_off) = (0u32, 0u32);
        let parties = [("beneficiary", w.block.coinbase), ("base-fee-vault", BASE_FEE_RECIPIENT), ("l1-fee-vault", L1_FEE_RECIPIENT), ("operator-fee-vault", OPERATOR_FEE_RECIPIENT)];
        let is_party = |a: &Address| parties.iter().any(|(_, p)| p == a);
        let mut universe = w.universe.clone();
        universe.extend(w.disk.accounts.keys().cloned());
        universe.sort();
        universe.dedup();
        let mut out = Vec::new();
        let mut fp = Hasher64::new();
        fp.s(&w.cfg.spec);
        let mut last_reconfig = "none".to_string();
        let mut party_involved = false;
        let mut executed = 0u64;
        for (i, op) in case.base.txs.iter().enumerate() {
            for r in case.reconf.get(i).map(|v| v.as_slice()).unwrap_or(&[]) {
                apply_reconfig(&mut on, r, &mut block_on, &mut noop_on);
                apply_reconfig(&mut off, r, &mut block_off, &mut noop_off);
                let name = match r {
                    HOp::SetSpec { how: 0, .. } => "modify_spec_id",
                    HOp::SetSpec { .. } => "with_spec_id",
                    HOp::AppendNoopRegister => "append_handler_register",
                    HOp::PopRegister => "pop_handle_register",
                    HOp::Rebuild => "modify_build",
                    _ => "",
                };
                if !name.is_empty() {
                    last_reconfig = name.to_string();
                    stats.inc(&format!("ops.{name}"));
                    fp.s(name);
                }
            }
            if is_party(&op.tx.caller) || op.tx.to.map(|t| is_party(&t)).unwrap_or(false) {
                party_involved = true;
                stats.inc("probe.fee_party_is_sender_or_target");
            }
            let mut results = Vec::new();
            for sys in [&mut on, &mut off] {
                let env = &mut sys.evm().context.evm.env;
                apply_tx(env, &op.tx);
                env.tx.optimism.source_hash = if op.deposit { Some(B256::with_last_byte(1)) } else { None };
                env.tx.optimism.mint = op.mint;
                env.tx.optimism.is_system_transaction = Some(op.system);
                env.tx.optimism.enveloped_tx = Some(op.enveloped.clone());
                let r = match classify(sys.evm().transact()) {
                    Ok(rs) => {
                        sys.commit(rs.state);
                        TxOutcome::Ok(rs.result)
                    }
                    Err(o) => o,
                };
                results.push(r);
            }
            let kind = if op.system { "system" } else if op.deposit { "deposit" } else { "regular" };
            stats.inc(&format!("outcome.{kind}.{}", results[0].class().split(':').next().unwrap_or("")));
            fp.s(kind).s(&results[0].class());
            if let TxOutcome::Ok(r) = &results[0] {
                executed += 1;
                fp.u(r.gas_used());
                if last_reconfig != "none" {
                    stats.inc(&format!("probe.tx_after_{last_reconfig}"));
                }
            }
            if !party_involved && results[0] != results[1] {
                out.push(Violation::new("C22", "C22.op-twin-result", &[("after", last_reconfig.clone())], format!("tx {i} ({kind}): reward-on {:?} vs reward-off {:?}", results[0], results[1])));
                break;
            }
        }
        if out.is_empty() && !party_involved && executed > 0 {
            if let (Ok(mut s_on), Ok(mut s_off)) = (on.logical_state(&universe, &w.slots, true), off.logical_state(&universe, &w.slots, true)) {
                stats.inc("probe.op_reward_off_history_evaluated");
                let mut paid = false;
                for (name, p) in parties {
                    let before = w.disk.balance(&p);
                    let got = s_off.balance(&p);
                    if got != before {
                        out.push(Violation::new("C22", "C22.op-no-reward", &[("party", name.into()), ("after", last_reconfig.clone())], format!("rewards disabled, yet the {name} {p} went from {before} to {got} (last reconfiguration: {last_reconfig})")));
                    }
                    if s_on.balance(&p) != before {
                        paid = true;
                    }
                    s_on.accounts.remove(&p);
                    s_off.accounts.remove(&p);
                }
                if paid {
                    stats.inc("probe.reward_on_twin_paid_fees");
                }
                if s_on != s_off {
                    let who = s_on.accounts.keys().chain(s_off.accounts.keys()).find(|k| s_on.accounts.get(*k) != s_off.accounts.get(*k)).cloned();
                    out.push(Violation::new("C22", "C22.op-twin-state", &[("after", last_reconfig.clone())], format!("accounts other than the fee parties differ between reward-on and reward-off at {who:?}: {:?} vs {:?}", who.and_then(|k| s_on.accounts.get(&k).cloned()), who.and_then(|k| s_off.accounts.get(&k).cloned()))));
                }
            }
        }
        if executed > 0 {
            stats.fingerprint(fp.finish());
        }
        if stats.samples.is_empty() {
            stats.samples.push(json!({"engine": "opsim/C22", "spec": w.cfg.spec, "stack": format!("{:?}", w.cfg.stack), "reconf": format!("{:?}", case.reconf), "txs": case.base.txs.len()}));
        }
        out
    }

    fn shrink(&self, case: &OpRewardCase) -> Vec<OpRewardCase> {
        let mut out = Vec::new();
        for i in 0..case.base.txs.len() {
            if case.base.txs.len() > 1 {
                let mut c = case.clone();
                c.base.txs.remove(i);
                if i < c.reconf.len() {
                    let moved = c.reconf.remove(i);
                    if i < c.reconf.len() {
                        let mut m = moved;
                        m.extend(c.reconf[i].drain(..));
                        c.reconf[i] = m;
                    }
                }
                out.push(c);
            }
        }
        for (i, ops) in case.reconf.iter().enumerate() {
            for j in 0..ops.len() {
                let mut c = case.clone();
                c.reconf[i].remove(j);
                out.push(c);
            }
        }
        for b in OpSim.shrink(&case.base) {
            if b.txs.len() == case.base.txs.len() {
                out.push(OpRewardCase { base: b, reconf: case.reconf.clone() });
            }
        }
        out
    }
}
