//! Seeded world and transaction generation for the whole-transaction engines (E1).
use crate::asm::*;
use crate::core::{splitmix64, Rng};
use crate::disk::*;
use crate::sys::*;
use revm::primitives::{Address, Bytes, SpecId, B256, U256};
use serde::{Deserialize, Serialize};

pub fn addr_from(seed: u64, i: u64) -> Address {
    let mut s = seed ^ (i.wrapping_mul(0x9E37_79B9_7F4A_7C15));
    let a = splitmix64(&mut s);
    let b = splitmix64(&mut s);
    let c = splitmix64(&mut s);
    let mut v = [0u8; 20];
    v[..8].copy_from_slice(&a.to_be_bytes());
    v[8..16].copy_from_slice(&b.to_be_bytes());
    v[16..].copy_from_slice(&c.to_be_bytes()[..4]);
    Address::from(v)
}

pub const LEGACY_SPECS: &[SpecId] = &[
    SpecId::FRONTIER,
    SpecId::HOMESTEAD,
    SpecId::TANGERINE,
    SpecId::SPURIOUS_DRAGON,
    SpecId::BYZANTIUM,
    SpecId::PETERSBURG,
    SpecId::ISTANBUL,
    SpecId::BERLIN,
    SpecId::LONDON,
    SpecId::MERGE,
    SpecId::SHANGHAI,
    SpecId::CANCUN,
    SpecId::PRAGUE,
];

pub fn spec_name(s: SpecId) -> String {
    let n: &'static str = s.into();
    n.to_string()
}

#[derive(Clone, Debug, Serialize, Deserialize)]
pub struct World {
    pub cfg: SysCfg,
    pub block: BlockSpec,
    pub disk: SimDisk,
    pub eoas: Vec<Address>,
    pub contracts: Vec<Address>,
    /// every address the oracles should watch (pool + derived create addresses)
    pub universe: Vec<Address>,
    pub slots: Vec<U256>,
    /// accounts the shrinker must not simplify (probe contracts)
    #[serde(default)]
    pub protected: Vec<Address>,
    /// CREATE2 lifecycle template: (factory, child address); see `add_lifecycle`
    #[serde(default)]
    pub lifecycle: Option<(Address, Address)>,
    /// percentage of generated transactions that drive the lifecycle template
    #[serde(default)]
    pub lifecycle_pct: u64,
}

/// Lifecycle template (DESIGN §3.3): a factory that CREATE2s one fixed child with the
/// transaction's value; the child's init code stores 0x42 at slot CALLVALUE unless the value
/// is zero (so incarnations write different slots, or none), its runtime code self-destructs to the caller
/// (calldata[0] != 0) or stores calldata[2] at slot calldata[1]. Histories over these
/// transactions create, change, destroy and re-create the same address.
pub fn add_lifecycle(w: &mut World, pct: u64) {
    use crate::asm::op::*;
    let spec = w.cfg.spec_id();
    if !spec.is_enabled_in(SpecId::PETERSBURG) {
        return;
    }
    let salt = w.disk.hash_salt;
    let factory = addr_from(salt, 9000);
    // child runtime
    let mut r = Asm::new();
    r.push_u(0).op(CALLDATALOAD).push_u(0).op(BYTE).op(ISZERO);
    let l1 = r.len() + 3 + 1 + 2;
    r.push2(l1 as u16).op(JUMPI).op(CALLER).op(SELFDESTRUCT);
    debug_assert_eq!(r.len(), l1);
    r.op(JUMPDEST);
    r.push_u(2).op(CALLDATALOAD).push_u(0).op(BYTE);
    r.push_u(1).op(CALLDATALOAD).push_u(0).op(BYTE);
    r.op(SSTORE).op(STOP);
    // child init: if CALLVALUE != 0 { SSTORE(CALLVALUE, 0x42) }, then return the runtime. An
    // incarnation created with value 0 writes no slot at all and has the same nonce, balance
    // and code as any other value-0 incarnation: destroy + re-create then changes nothing
    // but the storage.
    let mut p = Asm::new();
    p.op(CALLVALUE).op(ISZERO);
    let skip = p.len() + 3 + 1 + 2 + 1 + 1;
    p.push2(skip as u16).op(JUMPI).push_u(0x42).op(CALLVALUE).op(SSTORE);
    debug_assert_eq!(p.len(), skip);
    p.op(JUMPDEST);
    let init = wrap_initcode(&p.code, &r.code);
    // factory: CREATE2(value = CALLVALUE, init, salt 0)
    let mut f = Asm::new();
    for (i, chunk) in init.chunks(32).enumerate() {
        let mut word = [0u8; 32];
        word[..chunk.len()].copy_from_slice(chunk);
        f.op(PUSH32).raw(&word).push_u(32 * i as u64).op(MSTORE);
    }
    f.push_u(0).push_u(init.len() as u64).push_u(0).op(CALLVALUE).op(CREATE2).op(POP).op(STOP);
    let child = create2_address(factory, U256::ZERO, &init);
    w.disk.accounts.insert(factory, DiskAccount { nonce: 1, code: f.bytes(), ..Default::default() });
    w.universe.push(factory);
    w.universe.push(child);
    w.universe.sort();
    w.universe.dedup();
    for k in 0..4u64 {
        if !w.slots.contains(&U256::from(k)) {
            w.slots.push(U256::from(k));
        }
    }
    // in some worlds an incarnation with storage is on the disk from the start
    if salt % 3 == 0 {
        let mut d = DiskAccount { nonce: 1, code: Bytes::from(r.code.clone()), ..Default::default() };
        d.storage.insert(U256::from(1), U256::from(0x42));
        d.storage.insert(U256::from(3), U256::from(7));
        w.disk.accounts.insert(child, d);
    }
    w.lifecycle = Some((factory, child));
    w.lifecycle_pct = pct;
}

fn gen_lifecycle_tx(rng: &mut Rng, w: &World, caller: Address) -> TxSpec {
    let (factory, child) = w.lifecycle.unwrap();
    let mut tx = TxSpec::simple(caller, Some(factory), Bytes::new(), 400_000);
    tx.gas_price = w.block.basefee + U256::from(rng.below(3));
    match rng.below(10) {
        0 | 1 | 2 | 3 => {
            // (re-)create with value 0..3 => the incarnation writes slot `value`
            tx.value = U256::from(rng.below(4));
        }
        4 | 5 | 6 => {
            // destroy
            tx.to = Some(child);
            tx.data = Bytes::from(vec![1]);
        }
        _ => {
            // change a slot (possibly back to zero / to its old value)
            tx.to = Some(child);
            tx.data = Bytes::from(vec![0, rng.below(4) as u8, *rng.pick(&[0u8, 0x42, 7])]);
            if rng.chance(1, 3) {
                tx.value = U256::from(rng.below(3));
            }
        }
    }
    tx
}

/// Swarm knobs of a world (what kind of behaviour dominates).
#[derive(Clone, Debug)]
pub struct WorldKnobs {
    pub specs: Vec<SpecId>,
    pub stacks: Vec<StackKind>,
    pub insp: InspKind,
    pub max_contracts: u64,
    pub snippets: (u64, u64),
    pub near_max_balances: bool,
    /// percentage of transactions that drive the CREATE2 lifecycle template (0 = none)
    pub lifecycle_pct: u64,
    pub tune: fn(&mut GenCtx, &mut Rng),
}

pub fn default_tune(_c: &mut GenCtx, _r: &mut Rng) {}

impl WorldKnobs {
    pub fn new(insp: InspKind) -> Self {
        WorldKnobs {
            specs: LEGACY_SPECS.to_vec(),
            stacks: vec![StackKind::Raw, StackKind::Raw, StackKind::Cache, StackKind::State, StackKind::StateBundle, StackKind::WrapRefCache],
            insp,
            max_contracts: 6,
            snippets: (2, 10),
            near_max_balances: false,
            lifecycle_pct: 8,
            tune: default_tune,
        }
    }
}

pub fn eoa_balance(rng: &mut Rng, near_max: bool) -> U256 {
    if near_max && rng.chance(1, 6) {
        match rng.below(3) {
            0 => U256::MAX,
            1 => U256::MAX - U256::from(rng.below(1_000_000)),
            _ => U256::from(1u64) << 255,
        }
    } else {
        match rng.below(8) {
            0 => U256::from(10u64).pow(U256::from(30)),
            1 => U256::from(rng.below(1_000_000)),
            _ => U256::from(10u64).pow(U256::from(24)) + U256::from(rng.below(1000)),
        }
    }
}

pub fn gen_world(rng: &mut Rng, k: &WorldKnobs) -> World {
    let spec = *rng.pick(&k.specs);
    let salt = rng.next_u64();
    let n_eoa = rng.range(2, 4);
    let n_con = rng.range(1, k.max_contracts);
    let eoas: Vec<Address> = (0..n_eoa).map(|i| addr_from(salt, i)).collect();
    let contracts: Vec<Address> = (0..n_con).map(|i| addr_from(salt, 100 + i)).collect();
    let coinbase = match rng.below(6) {
        0 => eoas[0],
        1 => contracts[0],
        _ => addr_from(salt, 999),
    };
    let slots: Vec<U256> = {
        let n = rng.range(1, 4);
        (0..n).map(|i| if rng.chance(1, 4) { U256::from(rng.next_u64()) } else { U256::from(i) }).collect()
    };
    let mut ctx = GenCtx::new(spec);
    ctx.slots = slots.clone();
    ctx.callees = contracts.clone();
    let mut pool: Vec<Address> = Vec::new();
    pool.extend(&eoas);
    pool.extend(&contracts);
    pool.push(coinbase);
    pool.push(addr_from(salt, 5000)); // never exists
    pool.push(addr_from(salt, 5001));
    for p in 1..=0x12u8 {
        if rng.chance(1, 3) {
            pool.push(Address::with_last_byte(p));
        }
    }
    pool.push(revm::primitives::BLOCKHASH_STORAGE_ADDRESS);
    pool.push(Address::ZERO);
    // swarm: re-weight snippet families
    for w in [&mut ctx.w_storage, &mut ctx.w_transient, &mut ctx.w_log, &mut ctx.w_ext, &mut ctx.w_mem, &mut ctx.w_call, &mut ctx.w_create, &mut ctx.w_selfdestruct, &mut ctx.w_term, &mut ctx.w_precompile, &mut ctx.w_env] {
        match rng.below(5) {
            0 => *w = 0,
            1 => *w *= 3,
            _ => {}
        }
    }
    ctx.w_value = *rng.pick(&[0u32, 10, 30, 60]);
    ctx.guard_pct = *rng.pick(&[0u64, 30, 60, 90]);
    (k.tune)(&mut ctx, rng);
    // initcodes: runtime programs written first (they may call the world's contracts)
    ctx.addr_pool = pool.clone();
    let n_init = rng.range(1, 3);
    let mut initcodes: Vec<Bytes> = Vec::new();
    for _ in 0..n_init {
        let mut sub = ctx.clone();
        sub.initcodes.clear();
        let n_rt = rng.range(0, 5) as usize;
        let runtime = gen_program(rng, &sub, n_rt, 3);
        let n_pro = rng.range(0, 3) as usize;
        let prologue = gen_program(rng, &sub, n_pro, 3);
        initcodes.push(if rng.chance(1, 8) {
            // degenerate initcodes: empty, reverting, returning 0xEF.., too large output
            match rng.below(4) {
                0 => Bytes::new(),
                1 => Bytes::from(vec![0x60, 0x00, 0x60, 0x00, 0xfd]),
                2 => Bytes::from(vec![0x60, 0xef, 0x60, 0x00, 0x53, 0x60, 0x01, 0x60, 0x00, 0xf3]),
                _ => Bytes::from(vec![0x61, 0x70, 0x00, 0x60, 0x00, 0xf3]),
            }
        } else {
            wrap_initcode(&prologue, &runtime)
        });
    }
    ctx.initcodes = initcodes.clone();
    // derived create2 addresses are nameable by programs and watched by the oracles
    let mut derived = Vec::new();
    for c in &contracts {
        for ic in &initcodes {
            for s in &ctx.salts {
                derived.push(create2_address(*c, *s, ic));
            }
        }
        derived.push(create_address(*c, 1));
        derived.push(create_address(*c, 0));
    }
    for e in &eoas {
        derived.push(create_address(*e, 0));
    }
    for d in derived.iter().take(6) {
        ctx.addr_pool.push(*d);
    }
    let mut disk = SimDisk { hash_salt: salt, ..Default::default() };
    for e in &eoas {
        disk.accounts.insert(*e, DiskAccount { balance: eoa_balance(rng, k.near_max_balances), nonce: rng.below(3), ..Default::default() });
    }
    for c in &contracts {
        let n = rng.range(k.snippets.0, k.snippets.1) as usize;
        let mut code = gen_program(rng, &ctx, n, 0);
        if spec == SpecId::OSAKA && rng.bool() {
            // EOF contract (EXTCALL / EXTDELEGATECALL / EXTSTATICCALL between EOF and legacy
            // code); only containers that revm's own validation accepts are deployed
            let eof = gen_eof_program(rng, &ctx, n);
            if revm::interpreter::analysis::validate_raw_eof_inner(eof.clone(), Some(revm::interpreter::analysis::CodeType::ReturnOrStop)).is_ok() {
                code = eof;
            }
        }
        let mut d = DiskAccount {
            balance: if rng.chance(1, 2) { U256::from(rng.below(1000)) } else if k.near_max_balances && rng.chance(1, 3) { U256::MAX - U256::from(rng.below(100)) } else { U256::ZERO },
            nonce: if spec.is_enabled_in(SpecId::SPURIOUS_DRAGON) { 1 } else { 0 },
            code,
            ..Default::default()
        };
        for s in &slots {
            if rng.chance(1, 3) {
                d.storage.insert(*s, U256::from(rng.range(1, 5)));
            }
        }
        disk.accounts.insert(*c, d);
    }
    // Prague: some EOAs are delegated (EIP-7702)
    if spec.is_enabled_in(SpecId::PRAGUE) && rng.chance(1, 3) {
        let who = *rng.pick(&eoas[1..]);
        let target = *rng.pick(&contracts);
        let mut code = vec![0xef, 0x01, 0x00];
        code.extend_from_slice(target.as_slice());
        disk.accounts.get_mut(&who).unwrap().code = Bytes::from(code);
    }
    // an empty-but-existing account and a storage-only account in some worlds
    if rng.chance(1, 4) {
        disk.accounts.insert(addr_from(salt, 5001), DiskAccount::default());
    }
    if coinbase != eoas[0] && coinbase != contracts[0] && rng.chance(1, 3) {
        disk.accounts.insert(coinbase, DiskAccount { balance: if k.near_max_balances && rng.chance(1, 8) { U256::MAX - U256::from(rng.below(1000)) } else { U256::from(rng.below(100)) }, ..Default::default() });
    }
    let basefee = if spec.is_enabled_in(SpecId::LONDON) { U256::from(rng.below(20)) } else { U256::ZERO };
    let block = BlockSpec {
        number: 300 + rng.below(1000),
        coinbase,
        timestamp: 1_700_000_000 + rng.below(1000),
        gas_limit: U256::from(30_000_000u64),
        basefee,
        difficulty: U256::from(rng.below(1000)),
        prevrandao: Some(B256::from(U256::from(rng.next_u64()).to_be_bytes::<32>())),
        excess_blob_gas: Some(rng.below(10_000_000)),
    };
    let cfg = SysCfg {
        spec: spec_name(spec),
        stack: *rng.pick(&k.stacks),
        insp: k.insp,
        lazy_code: rng.chance(1, 3),
        empty_as_none: rng.bool(),
        analyse: rng.bool(),
        code_size_limit: if rng.chance(1, 10) { Some(rng.range(1, 64) as usize) } else { None },
        chain_id: 1,
        reward: true,
        fault_precompile: false,
    };
    let mut universe = pool;
    universe.extend(derived);
    universe.push(Address::with_last_byte(0xcc));
    universe.sort();
    universe.dedup();
    let mut w = World { cfg, block, disk, eoas, contracts, universe, slots, protected: vec![], lifecycle: None, lifecycle_pct: 0 };
    if k.lifecycle_pct > 0 {
        add_lifecycle(&mut w, k.lifecycle_pct);
    }
    w
}

/// A transaction against the world; fees are valid by construction (validity is C02's topic).
pub fn gen_tx(rng: &mut Rng, w: &World) -> TxSpec {
    let spec = w.cfg.spec_id();
    // senders must not have code (unless delegated): pick an EOA without plain code
    let senders: Vec<Address> = w
        .eoas
        .iter()
        .filter(|a| {
            let c = &w.disk.accounts[*a].code;
            c.is_empty() || c.starts_with(&[0xef, 0x01, 0x00])
        })
        .cloned()
        .collect();
    let caller = *rng.pick(&senders);
    if w.lifecycle.is_some() && rng.below(100) < w.lifecycle_pct {
        return gen_lifecycle_tx(rng, w, caller);
    }
    let to = match rng.below(20) {
        0 => None,
        1 => Some(*rng.pick(&w.eoas)),
        2 => Some(Address::with_last_byte(rng.range(1, 10) as u8)),
        3 => Some(*rng.pick(&w.universe)),
        _ => Some(*rng.pick(&w.contracts)),
    };
    let data = if to.is_none() {
        // create transaction: an initcode-like program
        let mut ctx = GenCtx::new(spec);
        ctx.slots = w.slots.clone();
        ctx.callees = w.contracts.clone();
        ctx.addr_pool = w.universe.clone();
        ctx.guard_pct = 0;
        if spec == SpecId::OSAKA && rng.bool() {
            // EOF create transaction: a generated init container (sometimes with one byte
            // damaged, which must fail cleanly), optionally followed by constructor data
            let n = rng.below(5) as usize;
            let mut c = gen_eof_init_program(rng, &ctx, n).to_vec();
            if rng.chance(1, 6) {
                let i = rng.below(c.len() as u64) as usize;
                c[i] = rng.below(256) as u8;
            }
            if rng.chance(1, 3) {
                let extra = rng.below(9) as usize;
                c.extend(rng.bytes(extra));
            }
            Bytes::from(c)
        } else {
            let (n1, n2) = (rng.below(4) as usize, rng.below(4) as usize);
            let runtime = gen_program(rng, &ctx, n1, 3);
            let prologue = gen_program(rng, &ctx, n2, 3);
            wrap_initcode(&prologue, &runtime)
        }
    } else {
        let n = rng.below(24) as usize;
        Bytes::from((0..n).map(|_| if rng.chance(3, 4) { rng.range(1, 255) as u8 } else { 0 }).collect::<Vec<u8>>())
    };
    let gas_limit = match rng.below(10) {
        0 => 21_000 + rng.below(40_000),
        1 | 2 => 100_000 + rng.below(200_000),
        3 => 3_000_000,
        _ => 300_000 + rng.below(1_200_000),
    };
    // EOF calls keep only max(gas/64, 5000) back, so recursion through EXTCALL is bounded by
    // the gas alone: smaller limits keep OSAKA runs as cheap as the others
    let gas_limit = if spec == SpecId::OSAKA { gas_limit.min(250_000) } else { gas_limit };
    let london = spec.is_enabled_in(SpecId::LONDON);
    let (gas_price, priority_fee) = if london && rng.bool() {
        let max = w.block.basefee + U256::from(rng.below(30));
        (max, Some(U256::from(rng.below(10))))
    } else {
        (w.block.basefee + U256::from(rng.below(30)), None)
    };
    let value = if rng.chance(1, 3) { U256::from(rng.below(1000)) } else { U256::ZERO };
    let mut access_list = vec![];
    if spec.is_enabled_in(SpecId::BERLIN) && rng.chance(1, 3) {
        for _ in 0..rng.range(1, 3) {
            let a = *rng.pick(&w.universe);
            let ks: Vec<U256> = w.slots.iter().filter(|_| rng.bool()).cloned().collect();
            access_list.push((a, ks));
        }
    }
    // EIP-4844 blob transactions (Cancun+): the blob fee is burned
    let (mut blobs, mut blob_fee_cap) = (vec![], None);
    if spec.is_enabled_in(SpecId::CANCUN) && to.is_some() && rng.chance(1, 6) {
        let n = rng.range(1, 3);
        blobs = (0..n)
            .map(|i| {
                let mut b = [i as u8 + 1; 32];
                b[0] = 0x01;
                B256::from(b)
            })
            .collect();
        blob_fee_cap = Some(crate::model::blob_gasprice(spec, w.block.excess_blob_gas.unwrap_or(0)) + U256::from(rng.below(5)));
    }
    let mut auth_list = None;
    if spec.is_enabled_in(SpecId::PRAGUE) && to.is_some() && blobs.is_empty() && rng.chance(1, 5) {
        let mut l = vec![];
        for _ in 0..rng.range(1, 3) {
            let authority = *rng.pick(&w.eoas);
            l.push(AuthSpec {
                chain_id: *rng.pick(&[0u64, 1, 1, 7]),
                address: if rng.chance(1, 6) { Address::ZERO } else { *rng.pick(&w.contracts) },
                nonce: if rng.chance(2, 3) { w.disk.nonce(&authority) } else { rng.below(3) },
                authority: if rng.chance(1, 8) { None } else { Some(authority) },
            });
        }
        auth_list = Some(l);
    }
    TxSpec {
        caller,
        to,
        value,
        data,
        gas_limit,
        gas_price,
        priority_fee,
        nonce: if rng.chance(1, 4) { None } else { None },
        chain_id: if rng.chance(1, 4) { Some(1) } else { None },
        access_list,
        blob_hashes: blobs,
        max_fee_per_blob_gas: blob_fee_cap,
        auth_list,
    }
}
