//! Small executable reference models written from the EIP texts (not from revm's code):
//! intrinsic / floor gas, transaction validity (C02), fee equations (C09).
use crate::disk::SimDisk;
use crate::sys::{BlockSpec, TxSpec};
use alloy_primitives::U512;
use revm::primitives::{SpecId, U256};

fn on(spec: SpecId, s: SpecId) -> bool {
    spec.is_enabled_in(s)
}

/// EIP-2028 tokens: zero byte = 1 token, non-zero byte = 4 tokens
pub fn calldata_tokens(data: &[u8]) -> u64 {
    let z = data.iter().filter(|b| **b == 0).count() as u64;
    z + (data.len() as u64 - z) * 4
}

/// Intrinsic gas (yellow paper G_transaction + data + create + EIP-2930 + EIP-3860 + EIP-7702)
pub fn intrinsic_gas(spec: SpecId, tx: &TxSpec) -> u64 {
    let zeros = tx.data.iter().filter(|b| **b == 0).count() as u64;
    let nonzeros = tx.data.len() as u64 - zeros;
    let nz_cost = if on(spec, SpecId::ISTANBUL) { 16 } else { 68 };
    let mut g = 21000 + zeros * 4 + nonzeros * nz_cost;
    if tx.to.is_none() && on(spec, SpecId::HOMESTEAD) {
        g += 32000;
    }
    if on(spec, SpecId::BERLIN) {
        g += tx.access_list.len() as u64 * 2400;
        g += tx.access_list.iter().map(|(_, ks)| ks.len() as u64).sum::<u64>() * 1900;
    }
    if tx.to.is_none() && on(spec, SpecId::SHANGHAI) {
        g += 2 * ((tx.data.len() as u64 + 31) / 32);
    }
    if on(spec, SpecId::PRAGUE) {
        g += tx.auth_list.as_ref().map(|l| l.len() as u64).unwrap_or(0) * 25000;
    }
    g
}

/// EIP-7623 floor (Prague)
pub fn floor_gas(spec: SpecId, tx: &TxSpec) -> u64 {
    if on(spec, SpecId::PRAGUE) {
        21000 + 10 * calldata_tokens(&tx.data)
    } else {
        0
    }
}

pub fn effective_gas_price(spec: SpecId, tx: &TxSpec, block: &BlockSpec) -> U256 {
    match tx.priority_fee {
        Some(p) if on(spec, SpecId::LONDON) || true => {
            let cap = block.basefee.saturating_add(p);
            if tx.gas_price < cap {
                tx.gas_price
            } else {
                cap
            }
        }
        _ => tx.gas_price,
    }
}

/// EIP-4844 fake exponential
fn fake_exponential(factor: u128, numerator: u128, denominator: u128) -> U256 {
    let f = U512::from(factor);
    let n = U512::from(numerator);
    let d = U512::from(denominator);
    let mut i = U512::from(1u64);
    let mut output = U512::ZERO;
    let mut acc = f * d;
    while !acc.is_zero() {
        output += acc;
        acc = (acc * n) / (d * i);
        i += U512::from(1u64);
    }
    let r = output / d;
    U256::from_limbs([r.as_limbs()[0], r.as_limbs()[1], r.as_limbs()[2], r.as_limbs()[3]])
}

pub const GAS_PER_BLOB: u64 = 1 << 17;

pub fn blob_gasprice(spec: SpecId, excess: u64) -> U256 {
    // EIP-4844: MIN_BASE_FEE_PER_BLOB_GAS = 1, update fraction 3338477 (Cancun),
    // EIP-7691: 5007716 (Prague)
    let frac = if on(spec, SpecId::PRAGUE) { 5007716u128 } else { 3338477u128 };
    fake_exponential(1, excess as u128, frac)
}

/// blob fee actually burned by the transaction
pub fn blob_fee(spec: SpecId, tx: &TxSpec, block: &BlockSpec) -> U256 {
    if !on(spec, SpecId::CANCUN) || tx.blob_hashes.is_empty() {
        return U256::ZERO;
    }
    let price = blob_gasprice(spec, block.excess_blob_gas.unwrap_or(0));
    price.saturating_mul(U256::from(GAS_PER_BLOB * tx.blob_hashes.len() as u64))
}

pub fn to_u512(v: U256) -> U512 {
    let l = v.as_limbs();
    U512::from_limbs([l[0], l[1], l[2], l[3], 0, 0, 0, 0])
}

pub fn total_balance(d: &SimDisk) -> U512 {
    d.accounts.values().fold(U512::ZERO, |acc, a| acc + to_u512(a.balance))
}
