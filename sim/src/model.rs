//! Small executable reference models written from the EIP texts (not from revm's code):
//! intrinsic / floor gas, transaction validity (C02), fee equations (C09).
use crate::disk::SimDisk;
use crate::sys::{BlockSpec, TxSpec};
use alloy_primitives::U512;
use revm::primitives::{SpecId, U256};

fn on(spec: SpecId, s: SpecId) -> bool {
    spec.is_enabled_in(s)
}

/// EIP-2028 tokens: zero byte = 1 token, non-zero byte = 4 tokens
pub fn calldata_tokens(data: &[u8]) -> u64 {
    let z = data.iter().filter(|b| **b == 0).count() as u64;
    z + (data.len() as u64 - z) * 4
}

/// Intrinsic gas (yellow paper G_transaction + data + create + EIP-2930 + EIP-3860 + EIP-7702)
pub fn intrinsic_gas(spec: SpecId, tx: &TxSpec) -> u64 {
    let zeros = tx.data.iter().filter(|b| **b == 0).count() as u64;
    let nonzeros = tx.data.len() as u64 - zeros;
    let nz_cost = if on(spec, SpecId::ISTANBUL) { 16 } else { 68 };
    let mut g = 21000 + zeros * 4 + nonzeros * nz_cost;
    if tx.to.is_none() && on(spec, SpecId::HOMESTEAD) {
        g += 32000;
    }
    if on(spec, SpecId::BERLIN) {
        g += tx.access_list.len() as u64 * 2400;
        g += tx.access_list.iter().map(|(_, ks)| ks.len() as u64).sum::<u64>() * 1900;
    }
    if tx.to.is_none() && on(spec, SpecId::SHANGHAI) {
        g += 2 * ((tx.data.len() as u64 + 31) / 32);
    }
    if on(spec, SpecId::PRAGUE) {
        g += tx.auth_list.as_ref().map(|l| l.len() as u64).unwrap_or(0) * 25000;
    }
    g
}

/// EIP-7623 floor (Prague)
pub fn floor_gas(spec: SpecId, tx: &TxSpec) -> u64 {
    if on(spec, SpecId::PRAGUE) {
        21000 + 10 * calldata_tokens(&tx.data)
    } else {
        0
    }
}

pub fn effective_gas_price(spec: SpecId, tx: &TxSpec, block: &BlockSpec) -> U256 {
    match tx.priority_fee {
        Some(p) if on(spec, SpecId::LONDON) || true => {
            let cap = block.basefee.saturating_add(p);
            if tx.gas_price < cap {
                tx.gas_price
            } else {
                cap
            }
        }
        _ => tx.gas_price,
    }
}

/// EIP-4844 fake exponential
fn fake_exponential(factor: u128, numerator: u128, denominator: u128) -> U256 {
    let f = U512::from(factor);
    let n = U512::from(numerator);
    let d = U512::from(denominator);
    let mut i = U512::from(1u64);
    let mut output = U512::ZERO;
    let mut acc = f * d;
    while !acc.is_zero() {
        output += acc;
        acc = (acc * n) / (d * i);
        i += U512::from(1u64);
    }
    let r = output / d;
    U256::from_limbs([r.as_limbs()[0], r.as_limbs()[1], r.as_limbs()[2], r.as_limbs()[3]])
}

pub const GAS_PER_BLOB: u64 = 1 << 17;

pub fn blob_gasprice(spec: SpecId, excess: u64) -> U256 {
    // EIP-4844: MIN_BASE_FEE_PER_BLOB_GAS = 1, update fraction 3338477 (Cancun),
    // EIP-7691: 5007716 (Prague)
    let frac = if on(spec, SpecId::PRAGUE) { 5007716u128 } else { 3338477u128 };
    fake_exponential(1, excess as u128, frac)
}

/// blob fee actually burned by the transaction
pub fn blob_fee(spec: SpecId, tx: &TxSpec, block: &BlockSpec) -> U256 {
    if !on(spec, SpecId::CANCUN) || tx.blob_hashes.is_empty() {
        return U256::ZERO;
    }
    let price = blob_gasprice(spec, block.excess_blob_gas.unwrap_or(0));
    price.saturating_mul(U256::from(GAS_PER_BLOB * tx.blob_hashes.len() as u64))
}

pub fn to_u512(v: U256) -> U512 {
    let l = v.as_limbs();
    U512::from_limbs([l[0], l[1], l[2], l[3], 0, 0, 0, 0])
}

pub fn total_balance(d: &SimDisk) -> U512 {
    d.accounts.values().fold(U512::ZERO, |acc, a| acc + to_u512(a.balance))
}

// ---------------------------------------------------------------- transaction validity (C02)

#[derive(Clone, Copy, Debug, PartialEq, Eq)]
pub enum Verdict {
    Accept,
    RejectTx,
    RejectHeader,
}

/// Validity predicate written from the EIP texts (EIP-155, 2, 2028, 2930, 1559, 3607, 3860,
/// 4844, 7623, 7702, block gas limit). Returns the verdict and the name of one violated
/// rule (several can fail at once; only the class is compared with revm).
pub fn validity(
    spec: SpecId,
    chain_id: u64,
    code_size_limit: Option<usize>,
    block: &BlockSpec,
    tx: &TxSpec,
    sender: Option<&crate::disk::DiskAccount>,
) -> (Verdict, &'static str) {
    use Verdict::*;
    if on(spec, SpecId::MERGE) && block.prevrandao.is_none() {
        return (RejectHeader, "prevrandao");
    }
    if on(spec, SpecId::CANCUN) && block.excess_blob_gas.is_none() {
        return (RejectHeader, "excess_blob_gas");
    }
    if let Some(c) = tx.chain_id {
        if c != chain_id {
            return (RejectTx, "chain_id");
        }
    }
    if U256::from(tx.gas_limit) > block.gas_limit {
        return (RejectTx, "block_gas_limit");
    }
    if !on(spec, SpecId::BERLIN) && !tx.access_list.is_empty() {
        return (RejectTx, "access_list_before_berlin");
    }
    if on(spec, SpecId::LONDON) {
        if let Some(p) = tx.priority_fee {
            if p > tx.gas_price {
                return (RejectTx, "priority_fee_above_max_fee");
            }
        }
        if effective_gas_price(spec, tx, block) < block.basefee {
            return (RejectTx, "fee_below_basefee");
        }
    }
    if on(spec, SpecId::SHANGHAI) && tx.to.is_none() {
        let max_initcode = code_size_limit.map(|l| l.saturating_mul(2)).unwrap_or(2 * 0x6000);
        if tx.data.len() > max_initcode {
            return (RejectTx, "initcode_size");
        }
    }
    let has_blob_fields = tx.max_fee_per_blob_gas.is_some() || !tx.blob_hashes.is_empty();
    if !on(spec, SpecId::CANCUN) && has_blob_fields {
        return (RejectTx, "blob_before_cancun");
    }
    if let Some(max) = tx.max_fee_per_blob_gas {
        if blob_gasprice(spec, block.excess_blob_gas.unwrap_or(0)) > max {
            return (RejectTx, "blob_price_above_max");
        }
        if tx.blob_hashes.is_empty() {
            return (RejectTx, "no_blobs");
        }
        if tx.to.is_none() {
            return (RejectTx, "blob_create");
        }
        if tx.blob_hashes.iter().any(|h| h[0] != 0x01) {
            return (RejectTx, "blob_version");
        }
        let max_blobs = if on(spec, SpecId::PRAGUE) { 9 } else { 6 };
        if tx.blob_hashes.len() > max_blobs {
            return (RejectTx, "too_many_blobs");
        }
    } else if !tx.blob_hashes.is_empty() {
        return (RejectTx, "blob_hashes_without_fee");
    }
    if !on(spec, SpecId::PRAGUE) && tx.auth_list.is_some() {
        return (RejectTx, "auth_list_before_prague");
    }
    if let Some(l) = &tx.auth_list {
        if l.is_empty() {
            return (RejectTx, "empty_auth_list");
        }
        if has_blob_fields {
            return (RejectTx, "auth_list_with_blob_fields");
        }
    }
    if intrinsic_gas(spec, tx) > tx.gas_limit {
        return (RejectTx, "intrinsic_gas");
    }
    if floor_gas(spec, tx) > tx.gas_limit {
        return (RejectTx, "floor_gas");
    }
    let empty = crate::disk::DiskAccount::default();
    let s = sender.unwrap_or(&empty);
    if !s.code.is_empty() && !(s.code.len() == 23 && s.code.starts_with(&[0xef, 0x01, 0x00])) {
        return (RejectTx, "sender_with_code");
    }
    if let Some(n) = tx.nonce {
        if n != s.nonce {
            return (RejectTx, "nonce");
        }
    }
    let mut cost = to_u512(tx.gas_price) * U512::from(tx.gas_limit) + to_u512(tx.value);
    if on(spec, SpecId::CANCUN) {
        if let Some(max) = tx.max_fee_per_blob_gas {
            cost += to_u512(max) * U512::from(GAS_PER_BLOB * tx.blob_hashes.len() as u64);
        }
    }
    if cost >= (U512::from(1u64) << 256) || cost > to_u512(s.balance) {
        return (RejectTx, "balance");
    }
    (Accept, "")
}
