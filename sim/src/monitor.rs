//! The monitor inspector: the simulator's probe inside a running transaction and its
//! F3 fault injector (DESIGN §4 E1). It only reads the journaled state (never the
//! database, so that it cannot perturb the database call sequence) and checks, while the
//! run proceeds, the invariants of C06 (frame level), C07, C10, C11, C29, C30 and C34.
use crate::core::{Hasher64, Violation};
use revm::interpreter::{
    gas, CallInputs, CallOutcome, CallScheme, CallValue, CreateInputs, CreateOutcome,
    EOFCreateInputs, EOFCreateKind, Gas, InstructionResult, Interpreter, InterpreterResult,
    SStoreResult,
};
use revm::primitives::{
    Address, Bytecode, Bytes, CreateScheme, Log, SpecId, B256, U256,
};
use revm::{Database, EvmContext, Inspector, JournalEntry, JournaledState};
use serde::{Deserialize, Serialize};
use std::collections::{BTreeMap, BTreeSet};

// ---------------------------------------------------------------- configuration

#[derive(Clone, Debug, Default, Serialize, Deserialize, PartialEq)]
pub struct ShortCircuit {
    /// index of the call/create/eofcreate hook (0 = the transaction's top frame)
    pub hook_no: u64,
    /// "ok" | "revert" | "halt"
    pub outcome: String,
    pub output: Bytes,
    /// gas left in the injected outcome, in 1/256 of the forwarded gas (0..=256)
    pub gas_left_frac: u16,
}

/// F3c: the inspector rewrites the inputs inside its call / create / eofcreate hook (they are
/// handed over as `&mut` for that): the gas limit of the frame with index `hook_no` (never
/// the transaction's own frame) is lowered to `gas_frac`/256 of what the parent forwarded.
#[derive(Clone, Debug, Default, Serialize, Deserialize, PartialEq)]
pub struct InputTweak {
    pub hook_no: u64,
    pub gas_frac: u16,
}

/// F3e: the inspector skips a frame's execution: it sets the instruction result in
/// `initialize_interp` (documented: "the execution of the interpreter is skipped") of the
/// inner frame with index `hook_no`.
#[derive(Clone, Debug, Default, Serialize, Deserialize, PartialEq)]
pub struct SkipFrame {
    pub hook_no: u64,
    /// "stop" | "revert" | "halt"
    pub result: String,
}

/// F3b: the inspector ends the running frame itself by setting the instruction result in
/// `step_end` (documented as allowed) after the `at_step`-th instruction of the transaction,
/// if that instruction completed normally.
#[derive(Clone, Debug, Default, Serialize, Deserialize, PartialEq)]
pub struct ForceHalt {
    pub at_step: u64,
    /// "stop" | "revert" | "halt"
    pub result: String,
    /// set the result in `step` (before the instruction, which is then not executed and has
    /// no `step_end`) instead of in `step_end`
    #[serde(default)]
    pub in_step: bool,
}

#[derive(Clone, Debug, Default)]
pub struct TxCtx {
    pub spec: Option<SpecId>,
    pub caller: Address,
    pub to: Option<Address>,
    pub coinbase: Address,
    pub access_list: Vec<(Address, Vec<U256>)>,
    /// authorities whose tuple passes chain id / nonce range / recovery (EIP-7702 steps 1-3)
    pub authorities: Vec<Address>,
}

// ---------------------------------------------------------------- snapshots

#[derive(Clone, Debug, PartialEq, Eq)]
struct AccSnap {
    balance: U256,
    nonce: u64,
    code_hash: B256,
    created: bool,
    destroyed: bool,
    touched: bool,
    storage: BTreeMap<U256, U256>,
}

#[derive(Clone, Debug)]
struct WorldSnap {
    accounts: BTreeMap<Address, AccSnap>,
    transient: BTreeMap<(Address, U256), U256>,
    logs_len: usize,
}

fn snap(js: &JournaledState) -> WorldSnap {
    let mut accounts = BTreeMap::new();
    for (a, acc) in js.state.iter() {
        accounts.insert(
            *a,
            AccSnap {
                balance: acc.info.balance,
                nonce: acc.info.nonce,
                code_hash: acc.info.code_hash,
                created: acc.is_created(),
                destroyed: acc.is_selfdestructed(),
                touched: acc.is_touched(),
                storage: acc.storage.iter().map(|(k, v)| (*k, v.present_value)).collect(),
            },
        );
    }
    WorldSnap {
        accounts,
        transient: js.transient_storage.iter().filter(|(_, v)| !v.is_zero()).map(|(k, v)| (*k, *v)).collect(),
        logs_len: js.logs.len(),
    }
}

/// Compare the journaled state with a snapshot. `static_mode`: world state only (touched
/// excluded); otherwise everything a reverted frame must restore. `nonce_slack`: address
/// whose nonce may legitimately be one higher (the creator of a failed create).
fn compare(js: &JournaledState, s: &WorldSnap, static_mode: bool, nonce_slack: Option<Address>, post_sd: bool) -> Option<(String, String)> {
    for (a, acc) in js.state.iter() {
        match s.accounts.get(a) {
            Some(o) => {
                if acc.info.balance != o.balance {
                    return Some(("balance".into(), format!("{a}: balance {} -> {}", o.balance, acc.info.balance)));
                }
                if acc.info.nonce != o.nonce && !(nonce_slack == Some(*a) && acc.info.nonce == o.nonce.wrapping_add(1)) {
                    return Some(("nonce".into(), format!("{a}: nonce {} -> {}", o.nonce, acc.info.nonce)));
                }
                if acc.info.code_hash != o.code_hash {
                    return Some(("code".into(), format!("{a}: code hash changed")));
                }
                if acc.is_created() != o.created {
                    return Some(("created".into(), format!("{a}: created flag {} -> {}", o.created, acc.is_created())));
                }
                if acc.is_selfdestructed() != o.destroyed {
                    return Some(("destroyed".into(), format!("{a}: selfdestructed flag {} -> {}", o.destroyed, acc.is_selfdestructed())));
                }
                if !static_mode && acc.is_touched() != o.touched && nonce_slack != Some(*a) {
                    // EIP-161 RIPEMD exception: the touch of 0x03 survives reverts by specification
                    if !(post_sd && *a == Address::with_last_byte(3)) {
                        return Some(("touched".into(), format!("{a}: touched flag {} -> {}", o.touched, acc.is_touched())));
                    }
                }
                for (k, slot) in acc.storage.iter() {
                    match o.storage.get(k) {
                        Some(v) => {
                            if *v != slot.present_value {
                                return Some(("storage".into(), format!("{a} slot {k}: {v} -> {}", slot.present_value)));
                            }
                        }
                        None => {
                            // first loaded inside the frame: its value at frame begin was the original value
                            if slot.present_value != slot.original_value {
                                return Some(("storage".into(), format!("{a} slot {k} (loaded inside frame): {} -> {}", slot.original_value, slot.present_value)));
                            }
                        }
                    }
                }
            }
            None => {
                // first loaded inside the frame: no baseline for balance/nonce, but it must
                // not be created/destroyed nor have changed storage
                if acc.is_created() || acc.is_selfdestructed() {
                    return Some(("created".into(), format!("{a} (loaded inside frame) is created/destroyed")));
                }
                if let Some((k, sl)) = acc.storage.iter().find(|(_, sl)| sl.present_value != sl.original_value) {
                    return Some(("storage".into(), format!("{a} slot {k} (account loaded inside frame): {} -> {}", sl.original_value, sl.present_value)));
                }
                if !static_mode && acc.is_touched() && !(post_sd && *a == Address::with_last_byte(3)) {
                    return Some(("touched".into(), format!("{a} (loaded inside frame) is touched")));
                }
            }
        }
    }
    let tr: BTreeMap<(Address, U256), U256> = js.transient_storage.iter().filter(|(_, v)| !v.is_zero()).map(|(k, v)| (*k, *v)).collect();
    if tr != s.transient {
        return Some(("transient".into(), format!("transient storage {:?} -> {:?}", s.transient, tr)));
    }
    if js.logs.len() != s.logs_len {
        return Some(("logs".into(), format!("log count {} -> {}", s.logs_len, js.logs.len())));
    }
    None
}

// ---------------------------------------------------------------- access model (C34)

#[derive(Clone, Debug, Default)]
pub struct AccessModel {
    pub addrs: BTreeSet<Address>,
    pub slots: BTreeSet<(Address, U256)>,
}

pub fn precompile_addresses(spec: SpecId) -> Vec<Address> {
    // written from the EIPs (not from revm's table): 1-4 Frontier, 5-8 Byzantium
    // (EIP-196/197/198), 9 Istanbul (EIP-152), 0x0a Cancun (EIP-4844), 0x0b-0x11 Prague (EIP-2537)
    let n = if spec.is_enabled_in(SpecId::PRAGUE) {
        0x11
    } else if spec.is_enabled_in(SpecId::CANCUN) {
        0x0a
    } else if spec.is_enabled_in(SpecId::ISTANBUL) {
        9
    } else if spec.is_enabled_in(SpecId::BYZANTIUM) {
        8
    } else {
        4
    };
    (1..=n).map(|i| Address::with_last_byte(i as u8)).collect()
}

// ---------------------------------------------------------------- frames

#[derive(Clone, Debug, PartialEq)]
enum FrameInputs {
    Call(CallInputs),
    Create(CreateInputs),
    EofCreate(EOFCreateInputs),
}

struct MemSnap {
    bytes: Vec<u8>,
    /// return window of the pending call (None for creates)
    window: Option<(usize, usize)>,
    is_call: bool,
}

struct FrameRec {
    inputs: FrameInputs,
    depth_at_begin: u64,
    is_static: bool,
    started: bool,
    first_step_seen: bool,
    short_circuited: bool,
    static_snap: Option<WorldSnap>,
    frame_snap: Option<WorldSnap>,
    access_snap: Option<AccessModel>,
    /// this frame's memory when it last issued a call/create (C11)
    mem_at_call: Option<MemSnap>,
    /// address this create frame is expected to create (for the access model)
    created_address: Option<Address>,
    nonce_slack: Option<Address>,
    burned: alloy_primitives::U512,
    /// remaining gas of this frame at its last step (C13: never grows inside a frame)
    last_gas: Option<u64>,
}

struct StepRec {
    opcode: u8,
    gas_before: u64,
    journal_len_before: usize,
    journal_vecs_before: usize,
    // operands decoded before execution
    addr_operand: Option<Address>,
    slot_operand: Option<U256>,
    sstore_vals: Option<(Option<U256>, U256)>, // present value before (if the slot was loaded), new value
    sd_expect: Option<(Address, Address, U256, bool)>, // contract, beneficiary, balance, contract is_created
    static_forbidden: bool,
    model_addr_cold: Option<bool>,
    model_slot_cold: Option<bool>,
}

struct EndedStep {
    opcode: u8,
    res: InstructionResult,
    is_eof: bool,
    logs: u32,
    sds: Vec<(Address, Address, U256)>,
    sd_expect: Option<(Address, Address, U256, bool)>,
}

struct SdView {
    sd_in_step: Vec<(Address, Address, U256)>,
    sd_expect: Option<(Address, Address, U256, bool)>,
}

#[derive(Default)]
pub struct Monitor {
    // ---- configuration (set by the harness before each transaction)
    pub ctx: TxCtx,
    pub short_circuits: Vec<ShortCircuit>,
    pub force_halt: Option<ForceHalt>,
    pub input_tweak: Option<InputTweak>,
    pub skip_frame: Option<SkipFrame>,
    tx_steps: u64,
    pub check_frame_snapshots: bool,
    pub check_access: bool,
    pub check_memory: bool,
    pub trace: bool,
    // ---- results
    pub violations: Vec<Violation>,
    pub counters: BTreeMap<String, u64>,
    pub fp: u64,
    // ---- run state
    frames: Vec<FrameRec>,
    pending: Option<StepRec>,
    ended: Option<EndedStep>,
    hook_no: u64,
    model: AccessModel,
    tx_level: AccessModel,
    top_delegate_checked: bool,
    pub steps: u64,
    pub max_depth: usize,
    pub log_callbacks: u64,
    pub sd_callbacks: u64,
    pub frames_total: u64,
    pub aborted_frames_left: u64,
    /// gas of the transaction's top frame as reported at its end: (remaining, refunded, ok, revert)
    pub top_gas: Option<(u64, i64, bool, bool)>,
    /// ether burned by completed self-destructs naming the contract itself (committed frames only)
    pub burned_total: alloy_primitives::U512,
    /// parties of internal ether flows (value calls/creates below the top frame, self-destructs)
    pub ether_touched: BTreeSet<Address>,
    /// a completed SELFDESTRUCT credited a beneficiary whose balance wrapped past 2^256
    pub sd_credit_wrapped: bool,
    /// a call or create of this transaction was refused with CallTooDeep (the depth limit was reached)
    pub too_deep_seen: bool,
    /// depth leak already attributed to inner frames of this transaction
    depth_leak: i64,
    /// every address targeted by a call frame in this transaction
    pub addresses_called: BTreeSet<Address>,
    /// addresses whose balance a program has read (BALANCE operand, SELFBALANCE)
    pub balance_observed: BTreeSet<Address>,
}

const MAX_VIOLATIONS: usize = 6;

impl Monitor {
    fn inc(&mut self, k: &str) {
        *self.counters.entry(k.to_string()).or_insert(0) += 1;
    }
    fn viol(&mut self, property: &str, oracle: &str, sig: &[(&str, String)], msg: String) {
        if self.violations.len() < MAX_VIOLATIONS && !self.violations.iter().any(|v| v.oracle == oracle && v.signature.iter().map(|(k, v)| (k.as_str(), v.clone())).collect::<Vec<_>>() == sig.iter().map(|(k, v)| (*k, v.clone())).collect::<Vec<_>>()) {
            self.violations.push(Violation::new(property, oracle, sig, msg));
        }
    }
    fn event(&mut self, tag: u64) {
        let mut h = Hasher64(self.fp);
        h.u(tag);
        self.fp = h.finish();
    }
    fn spec(&self) -> SpecId {
        self.ctx.spec.unwrap_or(SpecId::LATEST)
    }

    /// F3c: the gas limit the hook leaves in the inputs of the frame that is about to begin
    fn tweaked_gas(&mut self, gas_limit: u64) -> u64 {
        match &self.input_tweak {
            Some(t) if t.hook_no == self.hook_no && self.hook_no > 0 => {
                let g = (gas_limit as u128 * t.gas_frac.min(256) as u128 / 256) as u64;
                if g != gas_limit {
                    self.inc("fault.F3_inputs_rewritten_in_hook");
                }
                g
            }
            _ => gas_limit,
        }
    }

    /// Called by the harness before every transaction.
    pub fn begin_tx(&mut self, ctx: TxCtx, short_circuits: Vec<ShortCircuit>) {
        if !self.frames.is_empty() || self.pending.is_some() {
            // previous transaction was aborted (database / precompile error)
            self.aborted_frames_left += self.frames.len() as u64;
        }
        self.frames.clear();
        self.pending = None;
        self.ended = None;
        self.hook_no = 0;
        self.short_circuits = short_circuits;
        self.force_halt = None;
        self.input_tweak = None;
        self.skip_frame = None;
        self.tx_steps = 0;
        self.top_delegate_checked = false;
        self.top_gas = None;
        self.depth_leak = 0;
        self.too_deep_seen = false;
        self.burned_total = alloy_primitives::U512::ZERO;
        self.ether_touched.clear();
        self.addresses_called.clear();
        self.balance_observed.clear();
        self.fp = 0x1234_5678;
        // access model: initial set (EIP-2929/2930/3651/7702)
        let spec = ctx.spec.unwrap_or(SpecId::LATEST);
        let mut m = AccessModel::default();
        m.addrs.insert(ctx.caller);
        if let Some(to) = ctx.to {
            m.addrs.insert(to);
        }
        for p in precompile_addresses(spec) {
            m.addrs.insert(p);
        }
        if spec.is_enabled_in(SpecId::SHANGHAI) {
            m.addrs.insert(ctx.coinbase);
        }
        for (a, ks) in &ctx.access_list {
            m.addrs.insert(*a);
            for k in ks {
                m.slots.insert((*a, *k));
            }
        }
        if spec.is_enabled_in(SpecId::PRAGUE) {
            for a in &ctx.authorities {
                m.addrs.insert(*a);
            }
        }
        self.tx_level = m.clone();
        self.model = m;
        self.ctx = ctx;
    }

    /// Called by the harness after a transaction returned successfully (no database error).
    pub fn end_tx(&mut self, depth_now: u64) {
        self.finalize_ended();
        if !self.frames.is_empty() {
            let n = self.frames.len();
            self.viol("C29", "C29.balanced", &[("case", "open-frames-at-tx-end".into())], format!("{n} call/create notification(s) without a matching end at the end of the transaction"));
        }
        if self.pending.is_some() {
            self.viol("C29", "C29.step-bracket", &[("case", "step-without-step_end".into())], "transaction ended with a step that never received step_end".into());
        }
        if depth_now != 0 {
            self.viol("C07", "C07.depth-balance", &[("case", "depth-at-tx-end".into())], format!("journal depth {depth_now} after the transaction finished"));
        }
        self.frames.clear();
        self.pending = None;
    }

    fn post_sd(&self) -> bool {
        self.spec().is_enabled_in(SpecId::SPURIOUS_DRAGON)
    }

    // ---- frame begin / end (shared by the three kinds)

    fn frame_begin<DB: Database>(&mut self, context: &mut EvmContext<DB>, inputs: FrameInputs) -> Option<ShortCircuit> {
        self.finalize_ended();
        if self.pending.is_some() {
            self.viol("C29", "C29.step-bracket", &[("case", "frame-begin-inside-step".into())], "call/create notification arrived before step_end of the previous step".into());
            self.pending = None;
        }
        let js = &context.journaled_state;
        // (net of a leak already attributed to an earlier frame of this transaction)
        let depth = (js.depth() as i64 - self.depth_leak).max(0) as u64;
        let parent_static = self.frames.last().map(|f| f.is_static && f.started).unwrap_or(false);
        let (is_static, kind_tag) = match &inputs {
            FrameInputs::Call(c) => (c.is_static, 1u64),
            FrameInputs::Create(_) => (false, 2),
            FrameInputs::EofCreate(_) => (false, 3),
        };
        self.event(kind_tag);
        if self.trace {
            eprintln!("{}BEGIN hook={} depth={} {:?}", "  ".repeat(self.frames.len()), self.hook_no, depth, match &inputs { FrameInputs::Call(c) => format!("{:?} to {} code {} gas {} static {}", c.scheme, c.target_address, c.bytecode_address, c.gas_limit, c.is_static), FrameInputs::Create(c) => format!("{:?} by {} gas {}", c.scheme, c.caller, c.gas_limit), FrameInputs::EofCreate(c) => format!("eofcreate by {}", c.caller) });
        }
        self.frames_total += 1;
        if parent_static && !is_static {
            let what = match &inputs {
                FrameInputs::Call(c) => format!("{:?}", c.scheme),
                FrameInputs::Create(_) => "Create".to_string(),
                FrameInputs::EofCreate(_) => "EofCreate".to_string(),
            };
            self.viol("C10", "C10.static-inherited", &[("child", what.clone())], format!("frame {what} started from a static frame is not static"));
        }
        if let FrameInputs::Call(c) = &inputs {
            if is_static && c.transfers_value() && c.scheme == CallScheme::Call {
                self.viol("C10", "C10.forbidden-op", &[("op", "CALL-with-value".into())], "value-bearing CALL frame opened in static mode".into());
            }
        }
        // C11: the parent's memory snapshot taken at its CALL/CREATE step gets the window
        if let Some(p) = self.frames.last_mut() {
            if let Some(ms) = p.mem_at_call.as_mut() {
                if let FrameInputs::Call(c) = &inputs {
                    ms.window = Some((c.return_memory_offset.start, c.return_memory_offset.len()));
                    ms.is_call = true;
                } else {
                    ms.is_call = false;
                }
            }
        }
        let (created_address, nonce_slack) = match &inputs {
            FrameInputs::Create(c) => {
                let nonce = js.state.get(&c.caller).map(|a| a.info.nonce).unwrap_or(0);
                let addr = match c.scheme {
                    CreateScheme::Create => c.caller.create(nonce),
                    CreateScheme::Create2 { salt } => c.caller.create2_from_code(salt.to_be_bytes::<32>(), &c.init_code),
                };
                (Some(addr), Some(c.caller))
            }
            FrameInputs::EofCreate(c) => (c.kind.created_address().copied(), Some(c.caller)),
            FrameInputs::Call(_) => (None, None),
        };
        if !self.frames.is_empty() {
            match &inputs {
                FrameInputs::Call(c) if c.transfers_value() => {
                    self.ether_touched.insert(c.caller);
                    self.ether_touched.insert(c.target_address);
                }
                FrameInputs::Create(c) if !c.value.is_zero() => {
                    self.ether_touched.insert(c.caller);
                    if let Some(a) = created_address {
                        self.ether_touched.insert(a);
                    }
                }
                FrameInputs::EofCreate(c) if !c.value.is_zero() => {
                    self.ether_touched.insert(c.caller);
                    if let Some(a) = created_address {
                        self.ether_touched.insert(a);
                    }
                }
                _ => {}
            }
        } else if let FrameInputs::Call(c) = &inputs {
            if c.transfers_value() {
                self.ether_touched.insert(c.target_address);
            }
        } else if let Some(a) = created_address {
            self.ether_touched.insert(a);
        }
        if let FrameInputs::Call(c) = &inputs {
            self.addresses_called.insert(c.target_address);
            self.addresses_called.insert(c.bytecode_address);
        }
        let static_snap = if is_static && !parent_static { Some(snap(js)) } else { None };
        let frame_snap = if self.check_frame_snapshots && self.frames.len() < 12 { Some(snap(js)) } else { None };
        let access_snap = if self.check_access { Some(self.model.clone()) } else { None };
        if self.check_access {
            // inside the new frame the created address is already accessed
            if let Some(a) = created_address {
                self.model.addrs.insert(a);
            }
        }
        let hook_no = self.hook_no;
        self.hook_no += 1;
        let sc = self.short_circuits.iter().find(|s| s.hook_no == hook_no).cloned();
        self.frames.push(FrameRec {
            inputs,
            depth_at_begin: depth,
            is_static,
            started: false,
            first_step_seen: false,
            short_circuited: sc.is_some(),
            static_snap,
            frame_snap,
            access_snap,
            mem_at_call: None,
            created_address,
            nonce_slack,
            burned: alloy_primitives::U512::ZERO,
            last_gas: None,
        });
        self.max_depth = self.max_depth.max(self.frames.len());
        if sc.is_some() {
            self.inc("fault.F3_short_circuit");
            if self.frames.len() >= 2 {
                self.inc("probe.short_circuit_depth_ge2");
            }
        }
        sc
    }

    fn frame_end<DB: Database>(&mut self, context: &mut EvmContext<DB>, inputs: FrameInputs, result: InstructionResult, out_address: Option<Address>, gas: Gas) {
        self.event(10 + result as u64);
        if result == InstructionResult::CallTooDeep {
            self.too_deep_seen = true;
        }
        if self.trace {
            eprintln!("{}END {result:?} addr={out_address:?} gas_left={}", "  ".repeat(self.frames.len().saturating_sub(1)), gas.remaining());
        }
        self.finalize_ended();
        if self.pending.is_some() {
            self.viol("C29", "C29.step-bracket", &[("case", "frame-end-inside-step".into())], "call/create end notification arrived before step_end of the previous step".into());
            self.pending = None;
        }
        let Some(rec) = self.frames.pop() else {
            self.viol("C29", "C29.balanced", &[("case", "end-without-begin".into())], format!("end notification without an open frame ({result:?})"));
            return;
        };
        if rec.inputs != inputs {
            let k = match (&rec.inputs, &inputs) {
                (FrameInputs::Call(_), FrameInputs::Call(_)) | (FrameInputs::Create(_), FrameInputs::Create(_)) | (FrameInputs::EofCreate(_), FrameInputs::EofCreate(_)) => "same-kind-different-inputs",
                _ => "different-kind",
            };
            self.viol("C29", "C29.balanced", &[("case", k.into())], format!("end notification does not match the innermost open frame: begin {:?} end {:?}", rec.inputs, inputs));
        }
        // C13: a frame hands back at most the gas it was given
        {
            let given = match &inputs {
                FrameInputs::Call(c) => c.gas_limit,
                FrameInputs::Create(c) => c.gas_limit,
                FrameInputs::EofCreate(c) => c.gas_limit,
            };
            if gas.remaining() > given || gas.remaining() > gas.limit() {
                self.viol("C13", "C13.frame-gas", &[("case", "returned-more-than-given".into())], format!("frame ended ({result:?}) with {} gas remaining, given {given} (meter limit {})", gas.remaining(), gas.limit()));
            }
        }
        let js = &context.journaled_state;
        // C07: depth restored
        // (a leak found in an inner frame is subtracted, so that only the frame that leaked
        // is reported and not every frame around it)
        let depth_now = js.depth() as i64 - self.depth_leak;
        if depth_now != rec.depth_at_begin as i64 {
            self.depth_leak += depth_now - rec.depth_at_begin as i64;
            let how = if rec.short_circuited { "short-circuit".to_string() } else { format!("{result:?}") };
            self.viol("C07", "C07.depth-balance", &[("result", how)], format!("journal depth {} at frame end, {} at frame begin (result {result:?}, started={})", js.depth(), rec.depth_at_begin, rec.started));
        }
        self.inc(&format!("frame_end.{result:?}"));
        if !rec.started && !rec.short_circuited {
            self.inc(&format!("probe.early_return_{result:?}"));
        }
        let ok = result.is_ok();
        let post_sd = self.post_sd();
        if self.frames.is_empty() {
            self.top_gas = Some((gas.remaining(), gas.refunded(), ok, result.is_revert()));
        }
        if ok {
            match self.frames.last_mut() {
                Some(p) => p.burned += rec.burned,
                None => self.burned_total += rec.burned,
            }
        }
        // C10: static frame changed nothing
        if let Some(s) = &rec.static_snap {
            self.inc("probe.static_frame_checked");
            if let Some((field, msg)) = compare(js, s, true, None, post_sd) {
                self.viol("C10", "C10.static-unchanged", &[("field", field)], format!("world state changed across a static call: {msg}"));
            }
        }
        // C06 (frame level): a frame that did not succeed changed nothing
        if !ok && !rec.short_circuited {
            if let Some(s) = &rec.frame_snap {
                self.inc("probe.failed_frame_checked");
                if let Some((field, msg)) = compare(js, s, false, rec.nonce_slack, post_sd) {
                    self.viol("C06", "C06.frame-revert", &[("field", field), ("result", format!("{result:?}"))], format!("failed frame ({result:?}) left a change behind: {msg}"));
                }
            }
        }
        // C34: accesses of a failed frame are forgotten, except those of the caller's instruction
        if self.check_access {
            let was_accessed_before = match (&rec.access_snap, rec.created_address) {
                (Some(m), Some(a)) => Some(m.addrs.contains(&a)),
                _ => None,
            };
            if !ok {
                if let Some(m) = rec.access_snap {
                    self.model = m;
                    let tl = self.tx_level.clone();
                    self.model.addrs.extend(tl.addrs);
                    self.model.slots.extend(tl.slots);
                }
            }
            // the created address is accessed in the caller's frame once frame set-up got
            // as far as loading it (after the depth / balance / nonce checks)
            if let Some(a) = out_address.or(rec.created_address) {
                let early = matches!(result, InstructionResult::CallTooDeep | InstructionResult::OutOfFunds | InstructionResult::CreateInitCodeStartingEF00 | InstructionResult::InvalidEOFInitCode)
                    || (result == InstructionResult::Return && out_address.is_none())
                    || rec.short_circuited;
                if early {
                    // undo the insertion made at frame begin (the address revm would have
                    // computed, not the one an injected outcome carries)
                    if let Some(c) = rec.created_address {
                        if !was_accessed_before.unwrap_or(true) {
                            self.model.addrs.remove(&c);
                        }
                    }
                } else {
                    self.model.addrs.insert(a);
                }
            }
        }
    }

    fn make_gas(limit: u64, frac: u16) -> Gas {
        let mut g = Gas::new(limit);
        let left = (limit as u128 * frac.min(256) as u128 / 256) as u64;
        let _ = g.record_cost(limit - left);
        g
    }

    fn sc_result(sc: &ShortCircuit, gas_limit: u64) -> InterpreterResult {
        let (result, frac) = match sc.outcome.as_str() {
            "ok" => (InstructionResult::Return, sc.gas_left_frac),
            "stop" => (InstructionResult::Stop, sc.gas_left_frac),
            "revert" => (InstructionResult::Revert, sc.gas_left_frac),
            _ => (InstructionResult::OutOfGas, 0),
        };
        InterpreterResult { result, output: if result == InstructionResult::OutOfGas || result == InstructionResult::Stop { Bytes::new() } else { sc.output.clone() }, gas: Self::make_gas(gas_limit, frac) }
    }
}

fn stack_peek(interp: &Interpreter, n: usize) -> Option<U256> {
    let d = interp.stack.data();
    if d.len() > n {
        Some(d[d.len() - 1 - n])
    } else {
        None
    }
}
fn as_addr(v: U256) -> Address {
    Address::from_word(B256::from(v.to_be_bytes::<32>()))
}

fn total_journal_len(js: &JournaledState) -> usize {
    js.journal.last().map(|j| j.len()).unwrap_or(0)
}

impl<DB: Database> Inspector<DB> for Monitor {
    fn initialize_interp(&mut self, interp: &mut Interpreter, _context: &mut EvmContext<DB>) {
        self.event(20);
        // ---- F3e: skip the execution of this frame
        if let Some(sk) = &self.skip_frame {
            if self.hook_no > 1 && sk.hook_no + 1 == self.hook_no {
                interp.instruction_result = match sk.result.as_str() {
                    "stop" if interp.is_eof_init => InstructionResult::Revert,
                    "stop" => InstructionResult::Stop,
                    "revert" => InstructionResult::Revert,
                    _ => InstructionResult::OutOfGas,
                };
                self.inc("fault.F3_frame_skipped_in_initialize_interp");
            }
        }
        match self.frames.last_mut() {
            Some(f) => {
                if f.started {
                    self.viol("C29", "C29.balanced", &[("case", "initialize_interp-twice".into())], "initialize_interp called twice for one frame".into());
                }
                if let Some(f) = self.frames.last_mut() {
                    f.started = true;
                }
            }
            None => self.viol("C29", "C29.balanced", &[("case", "initialize_interp-without-frame".into())], "initialize_interp without an open frame".into()),
        }
    }

    fn step(&mut self, interp: &mut Interpreter, context: &mut EvmContext<DB>) {
        self.steps += 1;
        self.finalize_ended();
        // ---- F3b, `step` variant: the frame is ended before this instruction runs
        if let Some(fh) = &self.force_halt {
            if fh.in_step && fh.at_step == self.tx_steps && self.pending.is_none() && !self.frames.is_empty() {
                interp.instruction_result = match fh.result.as_str() {
                    "stop" if interp.is_eof_init => InstructionResult::Revert,
                    "stop" => InstructionResult::Stop,
                    "revert" => InstructionResult::Revert,
                    _ => InstructionResult::OutOfGas,
                };
                self.force_halt = None;
                self.inc("fault.F3_frame_halted_from_step");
                return;
            }
        }
        if self.pending.is_some() {
            self.viol("C29", "C29.step-bracket", &[("case", "step-without-step_end".into())], "step notification while the previous step has no step_end".into());
        }
        let opcode = interp.current_opcode();
        let js = &context.journaled_state;
        let nframes = self.frames.len();
        let spec = self.spec();
        let is_static = interp.is_static;
        // frame bookkeeping
        let mut mem_check: Option<MemSnap> = None;
        let mut first_step = false;
        match self.frames.last_mut() {
            None => {}
            Some(f) => {
                if !f.first_step_seen {
                    f.first_step_seen = true;
                    first_step = true;
                }
                mem_check = f.mem_at_call.take();
            }
        }
        // ---- C13 at frame level: the meter never exceeds its limit, and inside one frame the
        // remaining gas never grows from one instruction to the next (what a child hands back
        // is at most what was charged for it: forwarded gas, plus a stipend that is smaller
        // than the value-transfer cost)
        {
            let (rem, lim) = (interp.gas.remaining(), interp.gas.limit());
            if rem > lim {
                self.viol("C13", "C13.frame-gas", &[("case", "remaining-exceeds-limit".into())], format!("remaining gas {rem} exceeds the frame's limit {lim} before opcode 0x{opcode:02x}"));
            }
            let prev = self.frames.last_mut().and_then(|f| f.last_gas.replace(rem));
            if let Some(prev) = prev {
                if rem > prev {
                    self.viol("C13", "C13.frame-gas", &[("case", "remaining-grew".into())], format!("remaining gas grew from {prev} to {rem} between two instructions of one frame (now at opcode 0x{opcode:02x})"));
                }
            }
        }
        if nframes == 0 {
            self.viol("C29", "C29.balanced", &[("case", "step-without-frame".into())], "step notification without an open frame".into());
        } else if !self.frames[nframes - 1].started {
            self.viol("C29", "C29.balanced", &[("case", "step-in-unstarted-frame".into())], "step notification in a frame that was never initialised (short-circuited or rejected)".into());
        }
        if first_step {
            // C11: a new frame starts with empty memory
            if self.check_memory && interp.shared_memory.len() != 0 {
                self.viol("C11", "C11.child-starts-empty", &[], format!("frame started with memory length {}", interp.shared_memory.len()));
            }
            if self.frames.len() == 1 && !self.top_delegate_checked {
                self.top_delegate_checked = true;
                // Prague: delegation target of the transaction's destination is pre-accessed
                if let Some(to) = self.ctx.to {
                    if let Some(Bytecode::Eip7702(c)) = js.state.get(&to).and_then(|a| a.info.code.as_ref()) {
                        let d = c.address();
                        self.model.addrs.insert(d);
                        self.tx_level.addrs.insert(d);
                        self.inc("probe.tx_to_delegated");
                    }
                }
            }
            if is_static && self.frames.len() >= 2 {
                self.inc("probe.static_frame_ran");
            }
        }
        // C11: parent memory unchanged across the child, except the return window
        if let Some(ms) = mem_check {
            if self.check_memory {
                self.inc("probe.parent_memory_checked");
                let now = interp.shared_memory.context_memory();
                if now.len() != ms.bytes.len() {
                    self.viol("C11", "C11.parent-memory", &[("case", "length".into())], format!("parent memory length {} before the child, {} after", ms.bytes.len(), now.len()));
                } else {
                    let (ws, wl) = match (ms.is_call, ms.window) {
                        (true, Some((s, l))) => (s, l.min(interp.return_data_buffer.len())),
                        _ => (0, 0),
                    };
                    let mut bad: Option<usize> = None;
                    for i in 0..now.len() {
                        let expect = if i >= ws && i < ws + wl { interp.return_data_buffer[i - ws] } else { ms.bytes[i] };
                        if now[i] != expect {
                            bad = Some(i);
                            break;
                        }
                    }
                    if let Some(i) = bad {
                        let inside = i >= ws && i < ws + wl;
                        self.viol("C11", "C11.parent-memory", &[("case", if inside { "window".into() } else { "outside-window".to_string() })], format!("parent memory byte {i} differs after the child returned (window {ws}+{wl}, inside={inside})"));
                    }
                    if wl > 0 {
                        self.inc("probe.return_window_written");
                    }
                    if ms.is_call && ms.window.map(|w| w.1 > interp.return_data_buffer.len()).unwrap_or(false) {
                        self.inc("probe.return_window_partial");
                    }
                }
            }
        }
        let mut rec = StepRec {
            opcode,
            gas_before: interp.gas.remaining(),
            journal_len_before: total_journal_len(js),
            journal_vecs_before: js.journal.len(),
            addr_operand: None,
            slot_operand: None,
            sstore_vals: None,
            sd_expect: None,
            static_forbidden: false,
            model_addr_cold: None,
            model_slot_cold: None,
        };
        let me = interp.contract.target_address;
        // ---- C10 per-step: forbidden operations in static mode (legacy opcodes only)
        if is_static && !interp.is_eof {
            let forbidden = match opcode {
                0x55 | 0x5d | 0xa0..=0xa4 | 0xf0 | 0xf5 | 0xff => true,
                0xf1 => stack_peek(interp, 2).map(|v| !v.is_zero()).unwrap_or(false),
                _ => false,
            };
            // only opcodes that exist in this spec can be "attempted"
            let exists = match opcode {
                0x5d => spec.is_enabled_in(SpecId::CANCUN),
                0xf5 => spec.is_enabled_in(SpecId::PETERSBURG),
                _ => true,
            };
            if forbidden && exists {
                rec.static_forbidden = true;
                self.inc("probe.static_forbidden_attempt");
                if self.frames.len() >= 3 {
                    self.inc("probe.static_forbidden_attempt_nested");
                }
            }
        }
        // whose balance the program looks at (a twin that pays the beneficiary differently
        // legitimately diverges once a program reads the beneficiary's balance)
        if matches!(opcode, 0x31 | 0x3b | 0x3c | 0x3f) {
            // (EXTCODEHASH also tells an empty account from a missing one)
            if let Some(a) = stack_peek(interp, 0) {
                self.balance_observed.insert(as_addr(a));
            }
        } else if opcode == 0x47 {
            self.balance_observed.insert(me);
        }
        // ---- C30: expected self-destruct notification
        if opcode == 0xff && !interp.is_eof {
            if let Some(t) = stack_peek(interp, 0) {
                let bal = js.state.get(&me).map(|a| a.info.balance).unwrap_or_default();
                let created = js.state.get(&me).map(|a| a.is_created()).unwrap_or(false);
                rec.sd_expect = Some((me, as_addr(t), bal, created));
            }
        }
        // ---- C34: operands + model prediction
        if self.check_access && spec.is_enabled_in(SpecId::BERLIN) && !interp.is_eof {
            match opcode {
                0x54 | 0x55 => {
                    if let Some(k) = stack_peek(interp, 0) {
                        rec.slot_operand = Some(k);
                        rec.model_slot_cold = Some(!self.model.slots.contains(&(me, k)));
                        if opcode == 0x55 {
                            if let Some(newv) = stack_peek(interp, 1) {
                                let present = js.state.get(&me).and_then(|acc| acc.storage.get(&k)).map(|s| s.present_value);
                                rec.sstore_vals = Some((present, newv));
                            }
                        }
                    }
                }
                0x31 | 0x3b | 0x3c | 0x3f | 0xff => {
                    if let Some(a) = stack_peek(interp, 0) {
                        let a = as_addr(a);
                        rec.addr_operand = Some(a);
                        rec.model_addr_cold = Some(!self.model.addrs.contains(&a));
                    }
                }
                0xf1 | 0xf2 | 0xf4 | 0xfa => {
                    if let Some(a) = stack_peek(interp, 1) {
                        let a = as_addr(a);
                        rec.addr_operand = Some(a);
                        rec.model_addr_cold = Some(!self.model.addrs.contains(&a));
                    }
                }
                _ => {}
            }
        }
        self.pending = Some(rec);
    }

    fn step_end(&mut self, interp: &mut Interpreter, context: &mut EvmContext<DB>) {
        let Some(rec) = self.pending.take() else {
            self.viol("C29", "C29.step-bracket", &[("case", "step_end-without-step".into())], "step_end without a preceding step".into());
            return;
        };
        let res = interp.instruction_result;
        let rec_opcode_is_log = (0xa0..=0xa4).contains(&rec.opcode);
        let js = &context.journaled_state;
        let spec = self.spec();
        let me = interp.contract.target_address;
        let completed = matches!(res, InstructionResult::Continue | InstructionResult::CallOrCreate | InstructionResult::SelfDestruct | InstructionResult::Stop | InstructionResult::Return | InstructionResult::Revert | InstructionResult::ReturnContract);
        // ---- C10 per-step
        if rec.static_forbidden && !res.is_error() {
            self.viol("C10", "C10.forbidden-op", &[("op", format!("0x{:02x}", rec.opcode))], format!("state-changing opcode 0x{:02x} did not fail in static mode (result {res:?})", rec.opcode));
        }
        // the log / selfdestruct notifications of this instruction arrive *after* step_end
        // (the LOG and SELFDESTRUCT wrappers wrap the step wrapper); they are collected
        // in `ended` and judged at the next event
        if res == InstructionResult::SelfDestruct {
            if let Some((c, b, bal, _)) = rec.sd_expect {
                if c != b && js.state.get(&b).map(|x| x.info.balance < bal).unwrap_or(false) {
                    self.sd_credit_wrapped = true;
                }
            }
        }
        self.ended = Some(EndedStep { opcode: rec.opcode, res, is_eof: interp.is_eof, logs: 0, sds: vec![], sd_expect: rec.sd_expect });
        // ---- C11: remember this frame's memory when it issues a call/create
        if res == InstructionResult::CallOrCreate && self.check_memory {
            let bytes = interp.shared_memory.context_memory().to_vec();
            if let Some(f) = self.frames.last_mut() {
                f.mem_at_call = Some(MemSnap { bytes, window: None, is_call: false });
            }
        }
        self.step_end_access(rec, interp, js, spec, me, res, completed);
        // ---- F3b: end the frame from here
        self.tx_steps += 1;
        if res == InstructionResult::Continue {
            if let Some(fh) = &self.force_halt {
                if !fh.in_step && fh.at_step + 1 == self.tx_steps {
                    interp.instruction_result = match fh.result.as_str() {
                        // (EOF init code cannot end in STOP - validation forbids it - so a frame
                        // that creates an EOF contract is made to revert instead)
                        "stop" if interp.is_eof_init => InstructionResult::Revert,
                        "stop" => InstructionResult::Stop,
                        "revert" => InstructionResult::Revert,
                        _ => InstructionResult::OutOfGas,
                    };
                    self.inc("fault.F3_frame_halted_from_step_end");
                    if rec_opcode_is_log {
                        self.inc("probe.forced_halt_on_log");
                    }
                }
            }
        }
    }

    fn log(&mut self, _interp: &mut Interpreter, context: &mut EvmContext<DB>, log: &Log) {
        self.log_callbacks += 1;
        self.event(30);
        let last = context.journaled_state.logs.last();
        if last != Some(log) {
            self.viol("C29", "C29.log-once", &[("case", "not-the-last-log".into())], "log notification does not carry the record just appended to the journal".into());
        }
        match self.ended.as_mut() {
            Some(e) => e.logs += 1,
            None => self.viol("C29", "C29.log-once", &[("case", "outside-step".into())], "log notification that does not follow an instruction".into()),
        }
    }

    fn call(&mut self, context: &mut EvmContext<DB>, inputs: &mut CallInputs) -> Option<CallOutcome> {
        inputs.gas_limit = self.tweaked_gas(inputs.gas_limit);
        let sc = self.frame_begin(context, FrameInputs::Call(inputs.clone()));
        sc.map(|s| CallOutcome::new(Monitor::sc_result(&s, inputs.gas_limit), inputs.return_memory_offset.clone()))
    }

    fn call_end(&mut self, context: &mut EvmContext<DB>, inputs: &CallInputs, outcome: CallOutcome) -> CallOutcome {
        self.frame_end(context, FrameInputs::Call(inputs.clone()), outcome.result.result, None, outcome.result.gas);
        outcome
    }

    fn create(&mut self, context: &mut EvmContext<DB>, inputs: &mut CreateInputs) -> Option<CreateOutcome> {
        inputs.gas_limit = self.tweaked_gas(inputs.gas_limit);
        let sc = self.frame_begin(context, FrameInputs::Create(inputs.clone()));
        sc.map(|s| {
            let r = Monitor::sc_result(&s, inputs.gas_limit);
            let addr = if r.result.is_ok() { Some(Address::with_last_byte(0xcc)) } else { None };
            CreateOutcome::new(r, addr)
        })
    }

    fn create_end(&mut self, context: &mut EvmContext<DB>, inputs: &CreateInputs, outcome: CreateOutcome) -> CreateOutcome {
        self.frame_end(context, FrameInputs::Create(inputs.clone()), outcome.result.result, outcome.address, outcome.result.gas);
        outcome
    }

    fn eofcreate(&mut self, context: &mut EvmContext<DB>, inputs: &mut EOFCreateInputs) -> Option<CreateOutcome> {
        inputs.gas_limit = self.tweaked_gas(inputs.gas_limit);
        let sc = self.frame_begin(context, FrameInputs::EofCreate(inputs.clone()));
        sc.map(|s| {
            let mut r = Monitor::sc_result(&s, inputs.gas_limit);
            if r.result == InstructionResult::Return {
                r.result = InstructionResult::ReturnContract;
            }
            let addr = if r.result.is_ok() { Some(Address::with_last_byte(0xcc)) } else { None };
            CreateOutcome::new(r, addr)
        })
    }

    fn eofcreate_end(&mut self, context: &mut EvmContext<DB>, inputs: &EOFCreateInputs, outcome: CreateOutcome) -> CreateOutcome {
        self.frame_end(context, FrameInputs::EofCreate(inputs.clone()), outcome.result.result, outcome.address, outcome.result.gas);
        outcome
    }

    fn selfdestruct(&mut self, contract: Address, target: Address, value: U256) {
        self.sd_callbacks += 1;
        self.event(40);
        match self.ended.as_mut() {
            Some(e) => e.sds.push((contract, target, value)),
            None => self.viol("C30", "C30.notify", &[("case", "outside-step".into())], "selfdestruct notification that does not follow an instruction".into()),
        }
    }
}

impl Monitor {
    /// Judge the log / selfdestruct notifications of the last ended step (C29, C30).
    fn finalize_ended(&mut self) {
        let Some(e) = self.ended.take() else { return };
        let spec = self.spec();
        let res = e.res;
        // ---- C29: logs
        if (0xa0..=0xa4).contains(&e.opcode) && !e.is_eof {
            let expected = if res == InstructionResult::Continue { 1 } else { 0 };
            if e.logs != expected {
                self.viol("C29", "C29.log-once", &[("expected", expected.to_string()), ("got", e.logs.to_string())], format!("LOG step with result {res:?} produced {} log notification(s)", e.logs));
            }
            if expected == 1 {
                self.inc("probe.log_reported");
            }
        } else if e.logs != 0 && !e.is_eof {
            self.viol("C29", "C29.log-once", &[("expected", "0".into()), ("got", e.logs.to_string())], format!("log notification after opcode 0x{:02x}", e.opcode));
        }
        // ---- C30
        if e.opcode == 0xff && !e.is_eof {
            let rec = SdView { sd_in_step: e.sds, sd_expect: e.sd_expect };
            let n = rec.sd_in_step.len();
            // "completes" = the instruction did not fail (whatever success code it ends the
            // frame with: a repeated self-destruct of one account completes like the first)
            if res.is_ok() {
                let (c, b, bal, created) = rec.sd_expect.unwrap_or_default();
                let cancun = spec.is_enabled_in(SpecId::CANCUN);
                let case = if cancun && !created && c == b { "cancun-self-target-preexisting" } else if c == b { "self-target" } else { "other-target" };
                self.inc(&format!("probe.selfdestruct_completed_{case}"));
                self.ether_touched.insert(c);
                self.ether_touched.insert(b);
                if c == b && (created || !cancun) {
                    if let Some(f) = self.frames.last_mut() {
                        f.burned += crate::model::to_u512(bal);
                    }
                }
                if n != 1 {
                    self.viol("C30", "C30.notify", &[("case", format!("completed-{case}")), ("notifications", n.to_string())], format!("completed SELFDESTRUCT of {c} (beneficiary {b}, balance {bal}) produced {n} notification(s)"));
                } else {
                    let (nc, nb, nv) = rec.sd_in_step[0];
                    // Cancun, pre-existing contract naming itself: the contract keeps its balance,
                    // so the balance that left it is zero; in every other case the whole balance
                    // leaves (to the beneficiary, or burned with the account)
                    let value_ok = if case == "cancun-self-target-preexisting" { nv.is_zero() } else { nv == bal };
                    if nc != c || nb != b || !value_ok {
                        let what = if nc != c { "contract" } else if nb != b { "beneficiary" } else { "value" };
                        self.viol("C30", "C30.notify", &[("case", format!("wrong-{what}"))], format!("SELFDESTRUCT of {c} to {b} with balance {bal} reported as ({nc}, {nb}, {nv})"));
                    }
                }
            } else if n != 0 {
                self.inc("probe.selfdestruct_failed_with_notification");
                self.viol("C30", "C30.notify", &[("case", "spurious-after-failed-selfdestruct".into())], format!("SELFDESTRUCT that did not complete ({res:?}) produced {n} notification(s): {:?}", rec.sd_in_step));
            } else {
                self.inc("probe.selfdestruct_failed");
            }
        } else if !e.sds.is_empty() {
            self.viol("C30", "C30.notify", &[("case", "during-other-opcode".into())], format!("selfdestruct notification after opcode 0x{:02x}", e.opcode));
        }
    }

    #[allow(clippy::too_many_arguments)]
    fn step_end_access(&mut self, rec: StepRec, interp: &Interpreter, js: &JournaledState, spec: SpecId, me: Address, res: InstructionResult, completed: bool) {
        // ---- C34
        if self.check_access && spec.is_enabled_in(SpecId::BERLIN) && !interp.is_eof && js.journal.len() == rec.journal_vecs_before {
            let new_entries: &[JournalEntry] = js.journal.last().map(|j| &j[rec.journal_len_before.min(j.len())..]).unwrap_or(&[]);
            let gas_used = rec.gas_before.saturating_sub(interp.gas.remaining());
            if self.trace {
                eprintln!("{}op 0x{:02x} addr={:?} slot={:?} model_cold=({:?},{:?}) res={res:?} new_journal={:?}", "  ".repeat(self.frames.len()), rec.opcode, rec.addr_operand, rec.slot_operand, rec.model_addr_cold, rec.model_slot_cold, new_entries);
            }
            if let (Some(a), Some(model_cold)) = (rec.addr_operand, rec.model_addr_cold) {
                // did revm treat the address as cold? (a cold load is journaled)
                let revm_cold = new_entries.iter().any(|e| matches!(e, JournalEntry::AccountWarmed { address } if *address == a));
                if completed {
                    if revm_cold != model_cold {
                        let known = if a == revm::primitives::BLOCKHASH_STORAGE_ADDRESS { "BLOCKHASH_STORAGE_ADDRESS" } else if precompile_addresses(SpecId::PRAGUE).contains(&a) { "precompile-range" } else { "other" };
                        self.viol("C34", "C34.account-status", &[("expected_cold", model_cold.to_string()), ("address", known.into())], format!("opcode 0x{:02x} on {a}: revm treated it as {}, the access rules say {}", rec.opcode, if revm_cold { "cold" } else { "warm" }, if model_cold { "cold" } else { "warm" }));
                    }
                    if completed && matches!(rec.opcode, 0x31 | 0x3b | 0x3f) && res == InstructionResult::Continue {
                        let expect = if model_cold { 2600 } else { 100 };
                        self.inc(if model_cold { "probe.account_access_cold" } else { "probe.account_access_warm" });
                        if gas_used != expect {
                            self.viol("C34", "C34.account-price", &[("expected", expect.to_string()), ("charged", gas_used.to_string())], format!("opcode 0x{:02x} on {a} charged {gas_used}, expected {expect}", rec.opcode));
                        }
                    }
                    {
                        self.model.addrs.insert(a);
                        // CALL family: a delegated account's target is accessed too
                        if matches!(rec.opcode, 0xf1 | 0xf2 | 0xf4 | 0xfa) && spec.is_enabled_in(SpecId::PRAGUE) {
                            if let Some(Bytecode::Eip7702(c)) = js.state.get(&a).and_then(|x| x.info.code.as_ref()) {
                                let d = c.address();
                                let model_cold_d = !self.model.addrs.contains(&d);
                                let revm_cold_d = new_entries.iter().any(|e| matches!(e, JournalEntry::AccountWarmed { address } if *address == d));
                                self.inc("probe.call_to_delegated");
                                if d != a && model_cold_d != revm_cold_d {
                                    self.viol("C34", "C34.account-status", &[("expected_cold", model_cold_d.to_string()), ("address", "delegation-target".into())], format!("CALL to delegated {a}: delegation target {d} treated as {}, the access rules say {}", if revm_cold_d { "cold" } else { "warm" }, if model_cold_d { "cold" } else { "warm" }));
                                }
                                self.model.addrs.insert(d);
                            }
                        }
                    }
                }
            }
            if let (Some(k), Some(model_cold)) = (rec.slot_operand, rec.model_slot_cold) {
                let revm_cold = new_entries.iter().any(|e| matches!(e, JournalEntry::StorageWarmed { address, key } if *address == me && *key == k));
                if res == InstructionResult::Continue {
                    self.inc(if model_cold { "probe.slot_access_cold" } else { "probe.slot_access_warm" });
                    if revm_cold != model_cold {
                        let origin = if self.tx_level.slots.contains(&(me, k)) { "access_list" } else { "other" };
                        self.viol("C34", "C34.slot-status", &[("expected_cold", model_cold.to_string()), ("slot_origin", origin.into())], format!("opcode 0x{:02x} slot {k} of {me}: revm treated it as {}, the access rules say {}", rec.opcode, if revm_cold { "cold" } else { "warm" }, if model_cold { "cold" } else { "warm" }));
                    }
                    if rec.opcode == 0x54 {
                        let expect = if model_cold { 2100 } else { 100 };
                        if gas_used != expect {
                            self.viol("C34", "C34.sload-price", &[("expected", expect.to_string()), ("charged", gas_used.to_string())], format!("SLOAD slot {k} of {me} charged {gas_used}, expected {expect}"));
                        }
                    } else if let Some(s) = js.state.get(&me).and_then(|acc| acc.storage.get(&k)) {
                        // price from revm's own formula, evaluated with the model's cold bit
                        if let Some((present_before, newv)) = rec.sstore_vals {
                            let orig = s.original_value;
                            let vals = SStoreResult { original_value: orig, present_value: present_before.unwrap_or(orig), new_value: newv };
                            if let Some(expect) = gas::sstore_cost(spec, &vals, rec.gas_before, model_cold) {
                                if gas_used != expect {
                                    self.viol("C34", "C34.sstore-price", &[("expected_cold", model_cold.to_string())], format!("SSTORE slot {k} of {me} charged {gas_used}, expected {expect} (cold={model_cold})"));
                                }
                            }
                        }
                    }
                    self.model.slots.insert((me, k));
                }
            }
        }
    }
}

#[allow(dead_code)]
fn _unused(_: CallValue, _: EOFCreateKind) {}
