//! E4 `adtsim`: model conformance of `Stack`, `SharedMemory` and `Gas` under seeded
//! operation histories (DESIGN §4 E4; C12, C13, C11 API level). No environment fault
//! exists at this surface; what is used from the family is the reference-model oracle,
//! seeded histories, shrinking and replay. The same file is compiled into the Miri crate
//! (`crate::itp` is `revm_interpreter` there).
use crate::core::*;
use crate::itp::primitives::{B256, U256};
use crate::itp::{Gas, InstructionResult, SharedMemory, Stack};
use serde::{Deserialize, Serialize};
use serde_json::json;

// ---------------------------------------------------------------- stack (C12)

#[derive(Clone, Debug, Serialize, Deserialize, PartialEq)]
pub enum SOp {
    Push(U256),
    PushB256(U256),
    Pop,
    Peek(usize),
    Dup(usize),
    Swap(usize),
    Exchange(usize, usize),
    /// push_slice of `len` bytes generated from `seed`
    PushSlice(usize, u64),
    Set(usize, U256),
    /// fill up to `n` elements quickly
    FillTo(usize),
}

// ---------------------------------------------------------------- memory (C11)

#[derive(Clone, Debug, Serialize, Deserialize, PartialEq)]
pub enum MOp {
    NewContext,
    FreeContext,
    /// interpreter-level growth: resize_memory(new_size) with `gas` available
    Grow(usize, u64),
    SetByte(usize, u8),
    SetU256(usize, U256),
    Set(usize, usize, u64),
    /// set_data(memory_offset, data_offset, len, data(len2, seed))
    SetData(usize, usize, usize, usize, u64),
    Copy(usize, usize, usize),
    Slice(usize, usize),
    GetU256(usize),
}

// ---------------------------------------------------------------- gas (C13)

#[derive(Clone, Debug, Serialize, Deserialize, PartialEq)]
pub enum GOp {
    RecordCost(u64),
    /// return part of what was charged: per mille of spent
    EraseCost(u16),
    RecordRefund(i64),
    SetFinalRefund(bool),
    SpendAll,
    SetRefund(i64),
}

// ---------------------------------------------------------------- stack opcodes (C12, C13)

/// One stack instruction of a generated program that is run by the real interpreter loop.
#[derive(Clone, Debug, Serialize, Deserialize, PartialEq)]
pub enum COp {
    Push0,
    /// PUSHn with its n immediate bytes
    Push(Vec<u8>),
    Pop,
    Dup(u8),
    Swap(u8),
    /// EOF only: DUPN / SWAPN / EXCHANGE with their immediate byte
    DupN(u8),
    SwapN(u8),
    Exchange(u8),
}

#[derive(Clone, Debug, Serialize, Deserialize, PartialEq)]
pub struct CodeCase {
    pub spec: String,
    pub eof: bool,
    pub ops: Vec<COp>,
    pub gas_limit: u64,
    /// legacy only: bytes cut off the immediate of a final PUSHn (the code ends inside it)
    pub truncate: usize,
    /// "C12" | "C13": which property a violation is reported under
    pub prop: String,
}

#[derive(Clone, Debug, Serialize, Deserialize)]
pub enum AdtCase {
    Stack(Vec<SOp>),
    Memory(Vec<MOp>),
    Gas(u64, Vec<GOp>),
    Code(CodeCase),
}

pub struct AdtSim {
    /// "C12" (stack) | "C11" (memory) | "C13" (gas)
    pub focus: String,
}

fn rnd_u256(rng: &mut Rng) -> U256 {
    match rng.below(5) {
        0 => U256::ZERO,
        1 => U256::MAX,
        2 => U256::from(rng.below(100)),
        _ => U256::from_be_bytes::<32>(rng.bytes(32).try_into().unwrap()),
    }
}

pub fn slice_bytes(len: usize, seed: u64) -> Vec<u8> {
    let mut r = Rng::new(seed);
    let mut v = r.bytes(len);
    // never all zero in the last byte, so that padding mistakes show
    if let Some(l) = v.last_mut() {
        if *l == 0 {
            *l = 0x5a;
        }
    }
    v
}

fn slice_len(rng: &mut Rng) -> usize {
    // under Miri the 32 KiB slices are rare (they dominate the run time there)
    let pick = if cfg!(miri) && rng.chance(9, 10) { rng.below(6) } else { rng.below(10) };
    match pick {
        0 => 0,
        1 => 1,
        2 => 31,
        3 => 32,
        4 => 33,
        5 => 32 * rng.range(1, 8) as usize + *rng.pick(&[0usize, 1, 31]),
        6 => 1024 * 32 - *rng.pick(&[0usize, 1, 31, 32, 33]),
        7 => 1024 * 32 + *rng.pick(&[1usize, 31, 32, 64]),
        _ => rng.below(200) as usize,
    }
}

impl Engine for AdtSim {
    type Case = AdtCase;
    fn label(&self) -> String {
        format!("adtsim/{}", self.focus)
    }

    fn generate(&self, rng: &mut Rng) -> AdtCase {
        // under Miri (about 1000x slower) histories are shorter
        let n = if cfg!(miri) { rng.range(3, 24) as usize } else { rng.range(3, 80) as usize };
        match self.focus.as_str() {
            "C12" | "C13" if rng.chance(1, 4) => AdtCase::Code(gen_code_case(rng, &self.focus)),
            "C12" => {
                let mut ops = Vec::new();
                if rng.chance(1, 3) {
                    ops.push(SOp::FillTo(*rng.pick(&[1000usize, 1020, 1023, 1024])));
                }
                for _ in 0..n {
                    ops.push(match rng.below(12) {
                        0 | 1 | 2 => SOp::Push(rnd_u256(rng)),
                        3 => SOp::PushB256(rnd_u256(rng)),
                        4 | 5 => SOp::Pop,
                        6 => SOp::Peek(rng.below(20) as usize),
                        7 => SOp::Dup(rng.range(1, 17) as usize),
                        8 => SOp::Swap(rng.range(1, 17) as usize),
                        9 => SOp::Exchange(rng.below(17) as usize, rng.range(1, 17) as usize),
                        10 => SOp::PushSlice(slice_len(rng), rng.next_u64()),
                        _ => SOp::Set(rng.below(20) as usize, rnd_u256(rng)),
                    });
                }
                AdtCase::Stack(ops)
            }
            "C13" => {
                let limit = match rng.below(5) {
                    0 => 0,
                    1 => u64::MAX,
                    2 => rng.below(100),
                    _ => rng.below(10_000_000),
                };
                let mut ops = Vec::new();
                for _ in 0..n {
                    ops.push(match rng.below(10) {
                        0 | 1 | 2 | 3 => SGop_cost(rng, limit),
                        4 | 5 => GOp::EraseCost(rng.below(1001) as u16),
                        6 => GOp::RecordRefund(rng.below(100_000) as i64 - if rng.chance(1, 4) { 50_000 } else { 0 }),
                        7 => GOp::SetFinalRefund(rng.bool()),
                        8 => GOp::SpendAll,
                        _ => GOp::SetRefund(rng.below(1_000_000) as i64),
                    });
                }
                AdtCase::Gas(limit, ops)
            }
            _ => {
                let mut ops = vec![MOp::NewContext];
                for _ in 0..n {
                    let off = match rng.below(6) {
                        0 => 0,
                        1 => 31,
                        2 => 32,
                        _ => rng.below(300) as usize,
                    };
                    let len = match rng.below(5) {
                        0 => 0,
                        1 => 32,
                        _ => rng.below(100) as usize,
                    };
                    ops.push(match rng.below(14) {
                        0 => MOp::NewContext,
                        1 => MOp::FreeContext,
                        2 | 3 | 4 => MOp::Grow(off + len + rng.below(64) as usize, if rng.chance(1, 6) { rng.below(20) } else { 1_000_000 }),
                        5 => MOp::SetByte(off, rng.below(256) as u8),
                        6 => MOp::SetU256(off, rnd_u256(rng)),
                        7 | 8 => MOp::Set(off, len, rng.next_u64()),
                        9 => MOp::SetData(off, rng.below(80) as usize, len, rng.below(90) as usize, rng.next_u64()),
                        10 => MOp::Copy(off, rng.below(300) as usize, len),
                        11 => MOp::Slice(off, len),
                        12 => MOp::GetU256(off),
                        _ => MOp::Grow(4096 * rng.range(1, 3) as usize, 10_000_000),
                    });
                }
                AdtCase::Memory(ops)
            }
        }
    }

    fn execute(&self, case: &AdtCase, stats: &mut Stats) -> Vec<Violation> {
        match case {
            AdtCase::Stack(ops) => run_stack(ops, stats),
            AdtCase::Memory(ops) => run_memory(ops, stats),
            AdtCase::Gas(limit, ops) => run_gas(*limit, ops, stats),
            AdtCase::Code(c) => run_code(c, stats),
        }
    }

    fn shrink(&self, case: &AdtCase) -> Vec<AdtCase> {
        match case {
            AdtCase::Stack(ops) => shrink_vec(ops).into_iter().map(AdtCase::Stack).collect(),
            AdtCase::Memory(ops) => shrink_vec(ops).into_iter().map(AdtCase::Memory).collect(),
            AdtCase::Gas(l, ops) => shrink_vec(ops).into_iter().map(|o| AdtCase::Gas(*l, o)).collect(),
            AdtCase::Code(c) => {
                let mut out: Vec<AdtCase> = shrink_vec(&c.ops)
                    .into_iter()
                    .map(|o| {
                        let mut n = c.clone();
                        // the cut only makes sense while the program still ends in a long enough PUSHn
                        if !matches!(o.last(), Some(COp::Push(b)) if b.len() > n.truncate) {
                            n.truncate = 0;
                        }
                        n.ops = o;
                        AdtCase::Code(n)
                    })
                    .collect();
                if c.truncate > 0 {
                    let mut n = c.clone();
                    n.truncate = 0;
                    out.push(AdtCase::Code(n));
                }
                out
            }
        }
    }
}

const CODE_SPECS: &[&str] = &["FRONTIER", "BYZANTIUM", "LONDON", "SHANGHAI", "CANCUN", "PRAGUE", "OSAKA"];

fn cop_cost(op: &COp) -> u64 {
    match op {
        COp::Push0 | COp::Pop => 2,
        _ => 3,
    }
}

fn gen_code_case(rng: &mut Rng, prop: &str) -> CodeCase {
    let eof = rng.chance(1, 3);
    let spec = if eof { "OSAKA" } else { *rng.pick(CODE_SPECS) };
    // long programs reach the 1024 limit; under Miri they stay short
    let n = if cfg!(miri) {
        rng.range(1, 30) as usize
    } else if rng.chance(1, 5) {
        rng.range(1000, 1100) as usize
    } else {
        rng.range(1, 60) as usize
    };
    let growing = n >= 1000 || rng.chance(1, 3);
    let mut ops = Vec::with_capacity(n);
    for _ in 0..n {
        let k = if growing { rng.below(40) } else { rng.below(12) };
        ops.push(match k {
            0 => COp::Pop,
            1 => COp::Swap(rng.range(1, 16) as u8),
            2 if eof => COp::SwapN(*rng.pick(&[0u8, 1, 15, 16, 17, 200, 255])),
            3 if eof => COp::Exchange(rng.below(256) as u8),
            4 if eof => COp::DupN(*rng.pick(&[0u8, 1, 15, 16, 17, 200, 255])),
            5 => COp::Push0,
            6 | 7 => COp::Dup(rng.range(1, 16) as u8),
            _ => {
                let len = if rng.bool() { rng.range(1, 32) as usize } else { *rng.pick(&[1usize, 1, 2, 8, 20, 31, 32, 32]) };
                let mut b = rng.bytes(len);
                if rng.chance(1, 4) {
                    b[0] = 0;
                }
                COp::Push(b)
            }
        });
    }
    let total: u64 = ops.iter().map(cop_cost).sum();
    // F2 at this surface: the gas limit lands the out-of-gas on an arbitrary instruction
    let gas_limit = if prop == "C13" || rng.chance(1, 3) { rng.below(total + 4) } else { total + rng.below(1000) };
    let truncate = match ops.last() {
        Some(COp::Push(b)) if !eof && rng.chance(1, 2) => rng.range(1, b.len() as u64) as usize,
        _ => 0,
    };
    CodeCase { spec: spec.to_string(), eof, ops, gas_limit, truncate, prop: prop.to_string() }
}

#[allow(non_snake_case)]
fn SGop_cost(rng: &mut Rng, limit: u64) -> GOp {
    GOp::RecordCost(match rng.below(6) {
        0 => 0,
        1 => limit,
        2 => limit.wrapping_add(1),
        3 => u64::MAX,
        4 => rng.below(limit.max(1)),
        _ => rng.below(1000),
    })
}

fn viol(prop: &str, oracle: &str, op: &str, msg: String) -> Violation {
    Violation::new(prop, oracle, &[("op", op.to_string())], msg)
}

fn word_of(chunk: &[u8]) -> U256 {
    // the unused high-order bytes of a short last word are zero: the word is the
    // big-endian number formed by the remaining bytes (pinned by the shipped unit test)
    U256::from_be_slice(chunk)
}

pub fn run_stack(ops: &[SOp], stats: &mut Stats) -> Vec<Violation> {
    let mut st = Stack::new();
    let mut model: Vec<U256> = Vec::new();
    let mut fp = Hasher64::new();
    for (i, op) in ops.iter().enumerate() {
        let before = model.clone();
        let name;
        let mut reported_err: Option<InstructionResult> = None;
        let mut expect_err: Option<InstructionResult> = None;
        match op {
            SOp::FillTo(n) => {
                name = "fill";
                while model.len() < *n {
                    let v = U256::from(model.len());
                    let _ = st.push(v);
                    model.push(v);
                }
            }
            SOp::Push(v) | SOp::PushB256(v) => {
                name = "push";
                let r = if matches!(op, SOp::Push(_)) { st.push(*v) } else { st.push_b256(B256::from(v.to_be_bytes::<32>())) };
                reported_err = r.err();
                if model.len() >= 1024 {
                    expect_err = Some(InstructionResult::StackOverflow);
                } else {
                    model.push(*v);
                }
            }
            SOp::Pop => {
                name = "pop";
                let r = st.pop();
                match model.pop() {
                    Some(v) => {
                        if r != Ok(v) {
                            return vec![viol("C12", "C12.model", name, format!("op {i}: pop returned {r:?}, model {v}"))];
                        }
                    }
                    None => expect_err = Some(InstructionResult::StackUnderflow),
                }
                reported_err = r.err();
            }
            SOp::Peek(n) => {
                name = "peek";
                let r = st.peek(*n);
                if model.len() > *n {
                    let v = model[model.len() - 1 - n];
                    if r != Ok(v) {
                        return vec![viol("C12", "C12.model", name, format!("op {i}: peek({n}) returned {r:?}, model {v}"))];
                    }
                } else {
                    expect_err = Some(InstructionResult::StackUnderflow);
                }
                reported_err = r.err();
            }
            SOp::Dup(n) => {
                name = "dup";
                reported_err = st.dup(*n).err();
                if model.len() < *n {
                    expect_err = Some(InstructionResult::StackUnderflow);
                } else if model.len() + 1 > 1024 {
                    expect_err = Some(InstructionResult::StackOverflow);
                } else {
                    model.push(model[model.len() - n]);
                }
            }
            SOp::Swap(n) => {
                name = "swap";
                reported_err = st.swap(*n).err();
                if *n >= model.len() {
                    expect_err = Some(InstructionResult::StackUnderflow);
                } else {
                    let l = model.len();
                    model.swap(l - 1, l - 1 - n);
                }
            }
            SOp::Exchange(n, m) => {
                name = "exchange";
                reported_err = st.exchange(*n, *m).err();
                if n + m >= model.len() {
                    expect_err = Some(InstructionResult::StackUnderflow);
                } else {
                    let l = model.len();
                    model.swap(l - 1 - n, l - 1 - n - m);
                }
            }
            SOp::PushSlice(len, seed) => {
                name = "push_slice";
                let b = slice_bytes(*len, *seed);
                reported_err = st.push_slice(&b).err();
                let words = (len + 31) / 32;
                if model.len() + words > 1024 {
                    expect_err = Some(InstructionResult::StackOverflow);
                    stats.inc("probe.push_slice_overflow");
                } else {
                    for c in b.chunks(32) {
                        model.push(word_of(c));
                    }
                    if len % 32 != 0 {
                        stats.inc("probe.push_slice_partial_word");
                    }
                }
            }
            SOp::Set(n, v) => {
                name = "set";
                reported_err = st.set(*n, *v).err();
                if model.len() > *n {
                    let l = model.len();
                    model[l - 1 - n] = *v;
                } else {
                    expect_err = Some(InstructionResult::StackUnderflow);
                }
            }
        }
        fp.s(name).u(reported_err.is_some() as u64);
        stats.inc(&format!("ops.{name}"));
        if reported_err != expect_err {
            return vec![viol("C12", "C12.errors", name, format!("op {i} {op:?}: reported {reported_err:?}, model expects {expect_err:?} (len {})", before.len()))];
        }
        if let Some(e) = expect_err {
            stats.inc(&format!("probe.error_{e:?}"));
            if st.data() != &before {
                return vec![viol("C12", "C12.failed-op-unchanged", name, format!("op {i} {op:?} failed with {e:?} but changed the stack"))];
            }
        }
        if st.data() != &model || st.len() != model.len() {
            let at = st.data().iter().zip(model.iter()).position(|(a, b)| a != b);
            return vec![viol("C12", "C12.model", name, format!("op {i} {op:?}: stack differs from the model (len {} vs {}, first difference at {:?})", st.len(), model.len(), at))];
        }
        if model.len() > 1024 {
            return vec![viol("C12", "C12.model", name, "more than 1024 words".into())];
        }
        if model.len() == 1024 {
            stats.inc("probe.stack_full");
        }
    }
    stats.fingerprint(fp.finish());
    if stats.samples.is_empty() {
        stats.samples.push(json!(ops.iter().take(10).map(|o| format!("{o:?}")).collect::<Vec<_>>()));
    }
    vec![]
}

fn mem_gas(words: u64) -> u64 {
    3 * words + words * words / 512
}

pub fn run_memory(ops: &[MOp], stats: &mut Stats) -> Vec<Violation> {
    let mut mem = SharedMemory::new();
    let mut model: Vec<Vec<u8>> = Vec::new();
    let mut fp = Hasher64::new();
    let v = |op: &str, msg: String| vec![viol("C11", "C11.model", op, msg)];
    for (i, op) in ops.iter().enumerate() {
        let name;
        match op {
            MOp::NewContext => {
                name = "new_context";
                if model.len() < 40 {
                    mem.new_context();
                    model.push(Vec::new());
                    if mem.len() != 0 {
                        return v(name, format!("op {i}: a new context has length {}", mem.len()));
                    }
                }
            }
            MOp::FreeContext => {
                name = "free_context";
                // the interpreter loop always keeps the outermost context
                if model.len() > 1 {
                    mem.free_context();
                    model.pop();
                    stats.inc("probe.context_freed");
                }
            }
            MOp::Grow(new_size, gas_avail) => {
                name = "resize_memory";
                if let Some(cur) = model.last_mut() {
                    let words = (*new_size as u64 + 31) / 32;
                    let new_len = (words * 32) as usize;
                    // the interpreter only calls it to grow
                    if new_len > cur.len() {
                        let mut gas = Gas::new(*gas_avail);
                        let cost = mem_gas(words) - mem_gas(cur.len() as u64 / 32);
                        let ok = crate::itp::interpreter::resize_memory(&mut mem, &mut gas, *new_size);
                        if cost <= *gas_avail {
                            if !ok || gas.spent() != cost {
                                return v(name, format!("op {i}: growth to {new_len} should cost {cost} (3w + w^2/512), charged {} ok={ok}", gas.spent()));
                            }
                            cur.resize(new_len, 0);
                            stats.inc("probe.grown");
                        } else {
                            if ok || gas.spent() != 0 {
                                return v(name, format!("op {i}: growth costing {cost} succeeded with {gas_avail} gas"));
                            }
                            stats.inc("probe.growth_out_of_gas");
                        }
                    }
                }
            }
            MOp::SetByte(off, b) => {
                name = "set_byte";
                if let Some(cur) = model.last_mut() {
                    if *off < cur.len() {
                        mem.set_byte(*off, *b);
                        cur[*off] = *b;
                    }
                }
            }
            MOp::SetU256(off, val) => {
                name = "set_u256";
                if let Some(cur) = model.last_mut() {
                    if off + 32 <= cur.len() {
                        mem.set_u256(*off, *val);
                        cur[*off..off + 32].copy_from_slice(&val.to_be_bytes::<32>());
                    }
                }
            }
            MOp::Set(off, len, seed) => {
                name = "set";
                if let Some(cur) = model.last_mut() {
                    if off + len <= cur.len() {
                        let b = slice_bytes(*len, *seed);
                        mem.set(*off, &b);
                        cur[*off..off + len].copy_from_slice(&b);
                    }
                }
            }
            MOp::SetData(moff, doff, len, dlen, seed) => {
                name = "set_data";
                if let Some(cur) = model.last_mut() {
                    if moff + len <= cur.len() {
                        let data = slice_bytes(*dlen, *seed);
                        mem.set_data(*moff, *doff, *len, &data);
                        for j in 0..*len {
                            cur[moff + j] = data.get(doff + j).copied().unwrap_or(0);
                        }
                        if doff + len > data.len() {
                            stats.inc("probe.set_data_zero_fill");
                        }
                    }
                }
            }
            MOp::Copy(dst, src, len) => {
                name = "copy";
                if let Some(cur) = model.last_mut() {
                    if dst + len <= cur.len() && src + len <= cur.len() {
                        mem.copy(*dst, *src, *len);
                        cur.copy_within(*src..src + len, *dst);
                    }
                }
            }
            MOp::Slice(off, len) => {
                name = "slice";
                if let Some(cur) = model.last() {
                    if off + len <= cur.len() && mem.slice(*off, *len) != &cur[*off..off + len] {
                        return v(name, format!("op {i}: slice({off},{len}) differs from the model"));
                    }
                }
            }
            MOp::GetU256(off) => {
                name = "get_u256";
                if let Some(cur) = model.last() {
                    if off + 32 <= cur.len() && mem.get_u256(*off) != U256::from_be_slice(&cur[*off..off + 32]) {
                        return v(name, format!("op {i}: get_u256({off}) differs from the model"));
                    }
                }
            }
        }
        fp.s(name);
        stats.inc(&format!("ops.{name}"));
        // after every op: the visible context equals the model's top context
        if let Some(cur) = model.last() {
            if mem.len() != cur.len() {
                return v(name, format!("op {i} {op:?}: context length {} differs from the model {}", mem.len(), cur.len()));
            }
            if mem.context_memory() != &cur[..] {
                let at = mem.context_memory().iter().zip(cur.iter()).position(|(a, b)| a != b);
                return v(name, format!("op {i} {op:?}: context memory differs from the model at byte {at:?}"));
            }
            if cur.len() % 32 != 0 {
                return v(name, "model length is not word aligned (harness)".into());
            }
            if model.len() >= 8 {
                stats.inc("probe.nesting_ge8");
            }
        }
    }
    stats.fingerprint(fp.finish());
    if stats.samples.is_empty() {
        stats.samples.push(json!(ops.iter().take(10).map(|o| format!("{o:?}")).collect::<Vec<_>>()));
    }
    vec![]
}

pub fn run_gas(limit: u64, ops: &[GOp], stats: &mut Stats) -> Vec<Violation> {
    let mut g = Gas::new(limit);
    let (mut remaining, mut refunded) = (limit, 0i64);
    let mut fp = Hasher64::new();
    let v = |op: &str, msg: String| vec![viol("C13", "C13.model", op, msg)];
    for (i, op) in ops.iter().enumerate() {
        let name;
        match op {
            GOp::RecordCost(c) => {
                name = "record_cost";
                let ok = g.record_cost(*c);
                if *c > remaining {
                    stats.inc("probe.charge_rejected");
                    if ok {
                        return v(name, format!("op {i}: charge {c} accepted with {remaining} remaining"));
                    }
                } else {
                    if !ok {
                        return v(name, format!("op {i}: charge {c} rejected with {remaining} remaining"));
                    }
                    remaining -= c;
                }
            }
            GOp::EraseCost(permille) => {
                name = "erase_cost";
                // frame accounting only returns gas that was charged before
                let spent = limit - remaining;
                let back = (spent as u128 * *permille as u128 / 1000) as u64;
                g.erase_cost(back);
                remaining += back;
            }
            GOp::RecordRefund(r) => {
                name = "record_refund";
                if let Some(n) = refunded.checked_add(*r) {
                    g.record_refund(*r);
                    refunded = n;
                }
            }
            GOp::SetRefund(r) => {
                name = "set_refund";
                g.set_refund(*r);
                refunded = *r;
            }
            GOp::SetFinalRefund(london) => {
                name = "set_final_refund";
                // at the end of a transaction the counter is not negative
                if refunded >= 0 {
                    g.set_final_refund(*london);
                    let q = if *london { 5 } else { 2 };
                    let cap = (limit - remaining) / q;
                    if refunded as u64 > cap {
                        stats.inc("probe.refund_capped");
                    }
                    refunded = (refunded as u64).min(cap) as i64;
                }
            }
            GOp::SpendAll => {
                name = "spend_all";
                g.spend_all();
                remaining = 0;
            }
        }
        fp.s(name);
        stats.inc(&format!("ops.{name}"));
        if g.remaining() != remaining || g.limit() != limit || g.refunded() != refunded {
            return v(name, format!("op {i} {op:?}: meter (limit {}, remaining {}, refunded {}) differs from the model ({limit}, {remaining}, {refunded})", g.limit(), g.remaining(), g.refunded()));
        }
        if g.remaining() > g.limit() {
            return vec![viol("C13", "C13.invariant", name, format!("op {i}: remaining {} exceeds the limit {}", g.remaining(), g.limit()))];
        }
        if g.spent() != limit - remaining {
            return vec![viol("C13", "C13.invariant", name, format!("op {i}: spent {} != limit - remaining {}", g.spent(), limit - remaining))];
        }
    }
    stats.fingerprint(fp.finish());
    if stats.samples.is_empty() {
        stats.samples.push(json!({"limit": limit, "ops": ops.iter().take(10).map(|o| format!("{o:?}")).collect::<Vec<_>>()}));
    }
    vec![]
}

fn assemble(ops: &[COp], eof: bool, truncate: usize) -> Vec<u8> {
    let mut code = Vec::new();
    for op in ops {
        match op {
            COp::Push0 => code.push(0x5f),
            COp::Push(b) => {
                code.push(0x5f + b.len() as u8);
                code.extend_from_slice(b);
            }
            COp::Pop => code.push(0x50),
            COp::Dup(n) => code.push(0x7f + n),
            COp::Swap(n) => code.push(0x8f + n),
            COp::DupN(i) => code.extend_from_slice(&[0xe6, *i]),
            COp::SwapN(i) => code.extend_from_slice(&[0xe7, *i]),
            COp::Exchange(i) => code.extend_from_slice(&[0xe8, *i]),
        }
    }
    if eof {
        code.push(0x00);
        let mut c = vec![0xef, 0x00, 0x01, 0x01, 0x00, 0x04, 0x02, 0x00, 0x01];
        c.extend_from_slice(&(code.len() as u16).to_be_bytes());
        // no data section; one code section: 0 inputs, non-returning, max stack height 1023
        c.extend_from_slice(&[0x04, 0x00, 0x00, 0x00, 0x00, 0x80, 0x03, 0xff]);
        c.extend_from_slice(&code);
        c
    } else {
        let l = code.len();
        code.truncate(l - truncate);
        code
    }
}

/// A program of stack instructions only, executed by the real interpreter loop with the
/// real instruction table; the final stack, the gas meter and the result are compared with
/// a list model and a counter. The gas limit lands the out-of-gas on arbitrary instructions.
pub fn run_code(c: &CodeCase, stats: &mut Stats) -> Vec<Violation> {
    use crate::itp::analysis::to_analysed;
    use crate::itp::opcode::make_instruction_table;
    use crate::itp::primitives::{spec_to_generic, Address, Bytecode, Bytes, Eof, SpecId};
    use crate::itp::{Contract, DummyHost, Interpreter, InterpreterAction};
    let prop = c.prop.as_str();
    let spec = SpecId::from(c.spec.as_str());
    let raw = assemble(&c.ops, c.eof, c.truncate);
    let bytecode = if c.eof {
        match Eof::decode(Bytes::from(raw)) {
            Ok(e) => Bytecode::Eof(std::sync::Arc::new(e)),
            Err(e) => return vec![viol(prop, "harness", "assemble", format!("container does not decode: {e:?}"))],
        }
    } else {
        to_analysed(Bytecode::new_legacy(Bytes::from(raw)))
    };
    // ---- model
    let shanghai = SpecId::enabled(spec, SpecId::SHANGHAI);
    let mut model: Vec<U256> = Vec::new();
    let mut remaining = c.gas_limit;
    let mut expect = InstructionResult::Stop;
    let mut executed = 0usize;
    let last = c.ops.len().wrapping_sub(1);
    for (i, op) in c.ops.iter().enumerate() {
        if matches!(op, COp::Push0) && !shanghai {
            expect = InstructionResult::NotActivated;
            break;
        }
        let cost = cop_cost(op);
        if cost > remaining {
            expect = InstructionResult::OutOfGas;
            stats.inc("probe.code_out_of_gas_mid_program");
            break;
        }
        remaining -= cost;
        let l = model.len();
        let r: Result<(), InstructionResult> = match op {
            COp::Push0 => {
                if l >= 1024 { Err(InstructionResult::StackOverflow) } else { model.push(U256::ZERO); Ok(()) }
            }
            COp::Push(b) => {
                if l >= 1024 {
                    Err(InstructionResult::StackOverflow)
                } else {
                    // a PUSHn that runs past the end of the code reads zeros there
                    let mut w = [0u8; 32];
                    let n = b.len();
                    let avail = if i == last { n - c.truncate } else { n };
                    w[32 - n..32 - n + avail].copy_from_slice(&b[..avail]);
                    if avail < n {
                        stats.inc("probe.code_push_past_end");
                    }
                    model.push(U256::from_be_bytes(w));
                    Ok(())
                }
            }
            COp::Pop => model.pop().map(|_| ()).ok_or(InstructionResult::StackUnderflow),
            COp::Dup(_) | COp::DupN(_) => {
                let n = match op { COp::Dup(n) => *n as usize, COp::DupN(i) => *i as usize + 1, _ => unreachable!() };
                if l < n { Err(InstructionResult::StackUnderflow) } else if l >= 1024 { Err(InstructionResult::StackOverflow) } else { model.push(model[l - n]); Ok(()) }
            }
            COp::Swap(_) | COp::SwapN(_) => {
                let n = match op { COp::Swap(n) => *n as usize, COp::SwapN(i) => *i as usize + 1, _ => unreachable!() };
                if n >= l { Err(InstructionResult::StackUnderflow) } else { model.swap(l - 1, l - 1 - n); Ok(()) }
            }
            COp::Exchange(imm) => {
                // EIP-663: n = (imm >> 4) + 1, m = (imm & 15) + 1; swaps item n+1 with item n+m+1 (1 = top)
                let (n, m) = ((imm >> 4) as usize + 1, (imm & 0x0f) as usize + 1);
                if n + m >= l { Err(InstructionResult::StackUnderflow) } else { model.swap(l - 1 - n, l - 1 - n - m); Ok(()) }
            }
        };
        if let Err(e) = r {
            expect = e;
            stats.inc(&format!("probe.code_{e:?}"));
            break;
        }
        executed += 1;
    }
    // ---- real interpreter
    let contract = Contract::new(Bytes::new(), bytecode, None, Address::with_last_byte(0x77), None, Address::with_last_byte(0x11), U256::ZERO);
    let mut interp = Interpreter::new(contract, c.gas_limit, false);
    let mut host = DummyHost::default();
    let mut memory = SharedMemory::new();
    memory.new_context();
    let action = spec_to_generic!(spec, {
        let table = make_instruction_table::<DummyHost, SPEC>();
        interp.run(memory, &table, &mut host)
    });
    let InterpreterAction::Return { result } = action else {
        return vec![viol(prop, &format!("{prop}.code-model"), "run", format!("a program of stack instructions ended with the action {action:?}"))];
    };
    stats.add("steps.executed", executed as u64);
    stats.inc(&format!("outcome.code_{:?}", result.result));
    if model.len() == 1024 {
        stats.inc("probe.code_stack_full");
    }
    let at = format!("after {executed} of {} instructions ({})", c.ops.len(), c.ops.get(executed).map(|o| format!("next {o:?}")).unwrap_or_else(|| "end".into()));
    if result.result != expect {
        let p = if matches!(expect, InstructionResult::OutOfGas) || matches!(result.result, InstructionResult::OutOfGas) { "C13" } else { "C12" };
        return vec![viol(p, &format!("{p}.code-result"), "run", format!("result {:?}, model expects {expect:?} {at}", result.result))];
    }
    if interp.stack.data() != &model {
        let d = interp.stack.data().iter().zip(model.iter()).position(|(a, b)| a != b);
        return vec![viol("C12", "C12.code-model", "run", format!("final stack differs from the model (len {} vs {}, first difference at {d:?}; result {expect:?}) {at}", interp.stack.len(), model.len()))];
    }
    if result.gas.remaining() != remaining || result.gas.limit() != c.gas_limit || result.gas.spent() != c.gas_limit - remaining {
        return vec![viol("C13", "C13.code-gas", "run", format!("gas meter (limit {}, remaining {}) differs from the model (limit {}, remaining {remaining}; result {expect:?}) {at}", result.gas.limit(), result.gas.remaining(), c.gas_limit))];
    }
    let mut fp = Hasher64::new();
    fp.s(&c.spec).u(c.eof as u64).s(&format!("{expect:?}")).u(executed.min(64) as u64);
    for o in c.ops.iter().take(24) {
        fp.u(match o { COp::Push0 => 1, COp::Push(b) => 100 + b.len() as u64, COp::Pop => 2, COp::Dup(n) => 200 + *n as u64, COp::Swap(n) => 300 + *n as u64, COp::DupN(_) => 3, COp::SwapN(_) => 4, COp::Exchange(_) => 5 });
    }
    stats.fingerprint(fp.finish());
    vec![]
}
