//! The simulated disk (`SimDisk`), the reference appliers, and the fault-injecting
//! database (`FaultyDb`) that sits at the bottom of every layer stack (DESIGN §1.2 S1/S2).
use revm::primitives::{
    keccak256, Account, AccountInfo, Address, Bytecode, Bytes, EvmState, B256, KECCAK_EMPTY, U256,
};
use revm::{Database, DatabaseCommit, DatabaseRef};
use serde::{Deserialize, Serialize};
use std::cell::RefCell;
use std::collections::{BTreeMap, BTreeSet};
use std::rc::Rc;

#[derive(Clone, Debug, Default, PartialEq, Eq, Serialize, Deserialize)]
pub struct DiskAccount {
    pub balance: U256,
    pub nonce: u64,
    /// raw code bytes (legacy, EOF container or 7702 designator)
    #[serde(default)]
    pub code: Bytes,
    #[serde(default)]
    pub storage: BTreeMap<U256, U256>,
}

impl DiskAccount {
    pub fn code_hash(&self) -> B256 {
        if self.code.is_empty() {
            KECCAK_EMPTY
        } else {
            keccak256(&self.code)
        }
    }
    pub fn is_empty(&self) -> bool {
        self.balance.is_zero() && self.nonce == 0 && self.code.is_empty()
    }
}

/// Plain state: the durable truth of the simulation and the reference model's state.
#[derive(Clone, Debug, Default, PartialEq, Eq, Serialize, Deserialize)]
pub struct SimDisk {
    pub accounts: BTreeMap<Address, DiskAccount>,
    /// salt for the block-hash function (hash of any number is defined)
    #[serde(default)]
    pub hash_salt: u64,
}

pub fn to_bytecode(raw: &Bytes) -> Bytecode {
    if raw.is_empty() {
        Bytecode::default()
    } else {
        // new_raw_checked understands EOF and 7702; fall back to legacy on malformed
        Bytecode::new_raw_checked(raw.clone()).unwrap_or_else(|_| Bytecode::new_legacy(raw.clone()))
    }
}

impl SimDisk {
    pub fn block_hash_of(&self, number: u64) -> B256 {
        let mut b = [0u8; 16];
        b[..8].copy_from_slice(&number.to_be_bytes());
        b[8..].copy_from_slice(&self.hash_salt.to_be_bytes());
        keccak256(b)
    }
    pub fn info(&self, a: &Address, with_code: bool) -> Option<AccountInfo> {
        self.accounts.get(a).map(|acc| AccountInfo {
            balance: acc.balance,
            nonce: acc.nonce,
            code_hash: acc.code_hash(),
            code: if with_code { Some(to_bytecode(&acc.code)) } else { None },
        })
    }
    pub fn code_by_hash(&self, h: &B256) -> Option<Bytecode> {
        if *h == KECCAK_EMPTY {
            return Some(Bytecode::default());
        }
        self.accounts
            .values()
            .find(|a| !a.code.is_empty() && a.code_hash() == *h)
            .map(|a| to_bytecode(&a.code))
    }
    pub fn storage(&self, a: &Address, k: &U256) -> U256 {
        self.accounts
            .get(a)
            .and_then(|acc| acc.storage.get(k).copied())
            .unwrap_or_default()
    }
    pub fn has_storage(&self, a: &Address) -> bool {
        self.accounts.get(a).map(|acc| !acc.storage.is_empty()).unwrap_or(false)
    }
    pub fn balance(&self, a: &Address) -> U256 {
        self.accounts.get(a).map(|x| x.balance).unwrap_or_default()
    }
    pub fn nonce(&self, a: &Address) -> u64 {
        self.accounts.get(a).map(|x| x.nonce).unwrap_or_default()
    }

    /// Reference applier of an EVM transaction's state output (DESIGN appendix D).
    /// `state_clear`: EIP-161 semantics (touched empty accounts are deleted).
    pub fn apply_evm_state(&mut self, state: &EvmState, state_clear: bool) {
        let mut addrs: Vec<&Address> = state.keys().collect();
        addrs.sort();
        for a in addrs {
            let acc: &Account = &state[a];
            if !acc.is_touched() {
                continue;
            }
            if acc.is_selfdestructed() {
                self.accounts.remove(a);
                continue;
            }
            if acc.is_created() {
                if let Some(d) = self.accounts.get_mut(a) {
                    d.storage.clear();
                }
            }
            if acc.info.is_empty() && state_clear {
                // EIP-161: empty touched account is removed (with whatever it had)
                self.accounts.remove(a);
                continue;
            }
            let d = self.accounts.entry(*a).or_default();
            d.balance = acc.info.balance;
            d.nonce = acc.info.nonce;
            if acc.info.code_hash == KECCAK_EMPTY {
                d.code = Bytes::new();
            } else if let Some(code) = &acc.info.code {
                d.code = code.original_bytes();
            } else if d.code_hash() != acc.info.code_hash {
                // code not carried and hash differs from what we hold: cannot happen for
                // outputs of the EVM (it always carries new code); keep a marker
                panic!("apply_evm_state: code missing for changed hash (harness)");
            }
            for (k, slot) in acc.storage.iter() {
                if slot.is_changed() || acc.is_created() {
                    if slot.present_value.is_zero() {
                        d.storage.remove(k);
                    } else {
                        d.storage.insert(*k, slot.present_value);
                    }
                }
            }
        }
    }

    /// total of all balances as a 320-bit value (hi, lo) to detect creation/destruction
    pub fn total_balance(&self) -> (u64, U256) {
        let mut hi = 0u64;
        let mut lo = U256::ZERO;
        for a in self.accounts.values() {
            let (s, o) = lo.overflowing_add(a.balance);
            lo = s;
            if o {
                hi += 1;
            }
        }
        (hi, lo)
    }
}

// ---------------------------------------------------------------- faults

#[derive(Clone, Debug, PartialEq, Eq, PartialOrd, Ord, Serialize, Deserialize)]
pub enum DbKey {
    Basic(Address),
    Code(B256),
    Storage(Address, U256),
    BlockHash(u64),
    HasStorage(Address),
}

impl DbKey {
    pub fn kind(&self) -> &'static str {
        match self {
            DbKey::Basic(_) => "basic",
            DbKey::Code(_) => "code_by_hash",
            DbKey::Storage(..) => "storage",
            DbKey::BlockHash(_) => "block_hash",
            DbKey::HasStorage(_) => "has_storage",
        }
    }
}

#[derive(Clone, Debug, Default, PartialEq, Eq, Serialize, Deserialize)]
pub struct FaultPlan {
    /// fail the calls with these (0-based, counted since the plan was armed) indices
    #[serde(default)]
    pub at_calls: BTreeSet<u64>,
    /// fail the next `n` reads of the given key
    #[serde(default)]
    pub keys: Vec<(DbKey, u32)>,
}

impl FaultPlan {
    pub fn is_empty(&self) -> bool {
        self.at_calls.is_empty() && self.keys.is_empty()
    }
}

#[derive(Clone, Debug, PartialEq, Eq)]
pub struct DbErr(pub String);
impl std::fmt::Display for DbErr {
    fn fmt(&self, f: &mut std::fmt::Formatter<'_>) -> std::fmt::Result {
        write!(f, "{}", self.0)
    }
}
impl std::error::Error for DbErr {}

#[derive(Debug, Default)]
pub struct FaultyInner {
    pub disk: SimDisk,
    pub plan: FaultPlan,
    pub calls_since_arm: u64,
    pub total_calls: u64,
    pub faults_fired: u64,
    pub log: Vec<(DbKey, bool)>,
    pub log_enabled: bool,
    /// F7: hand out code lazily (info.code = None)
    pub lazy_code: bool,
    /// F7: report an existing-but-empty account as Some(empty) (true) or None (false);
    /// only applied when the disk really holds an empty account
    pub empty_as_none: bool,
    pub state_clear: bool,
    pub commits: u64,
}

/// Fault-injecting database over the simulated disk. Cheap to clone (shared handle), so
/// the simulator keeps a handle while the layer stack above owns another.
#[derive(Clone, Debug, Default)]
pub struct FaultyDb(pub Rc<RefCell<FaultyInner>>);

impl FaultyDb {
    pub fn new(disk: SimDisk) -> Self {
        FaultyDb(Rc::new(RefCell::new(FaultyInner {
            disk,
            state_clear: true,
            ..Default::default()
        })))
    }
    pub fn arm(&self, plan: FaultPlan) {
        let mut i = self.0.borrow_mut();
        i.plan = plan;
        i.calls_since_arm = 0;
    }
    pub fn disarm(&self) {
        self.arm(FaultPlan::default());
    }
    pub fn disk(&self) -> SimDisk {
        self.0.borrow().disk.clone()
    }
    pub fn with_disk<R>(&self, f: impl FnOnce(&mut SimDisk) -> R) -> R {
        f(&mut self.0.borrow_mut().disk)
    }
    pub fn calls(&self) -> u64 {
        self.0.borrow().total_calls
    }
    pub fn calls_since_arm(&self) -> u64 {
        self.0.borrow().calls_since_arm
    }
    pub fn fired(&self) -> u64 {
        self.0.borrow().faults_fired
    }
    pub fn take_log(&self) -> Vec<(DbKey, bool)> {
        std::mem::take(&mut self.0.borrow_mut().log)
    }
    fn gate(&self, key: DbKey) -> Result<(), DbErr> {
        let mut i = self.0.borrow_mut();
        let idx = i.calls_since_arm;
        i.calls_since_arm += 1;
        i.total_calls += 1;
        let mut fail = i.plan.at_calls.contains(&idx);
        if !fail {
            if let Some(e) = i.plan.keys.iter_mut().find(|(k, n)| *k == key && *n > 0) {
                e.1 -= 1;
                fail = true;
            }
        }
        if i.log_enabled {
            i.log.push((key.clone(), fail));
        }
        if fail {
            i.faults_fired += 1;
            Err(DbErr(format!("injected fault on {} (call {idx})", key.kind())))
        } else {
            Ok(())
        }
    }
    fn basic_impl(&self, address: Address) -> Result<Option<AccountInfo>, DbErr> {
        self.gate(DbKey::Basic(address))?;
        let i = self.0.borrow();
        let info = i.disk.info(&address, !i.lazy_code);
        // an empty account that still has storage (EIP-7610 case) exists in the trie: a real
        // database cannot report it as missing
        let has_storage = i.disk.has_storage(&address);
        Ok(match info {
            Some(inf) if i.empty_as_none && i.state_clear && inf.is_empty() && !has_storage => None,
            x => x,
        })
    }
    fn code_impl(&self, h: B256) -> Result<Bytecode, DbErr> {
        self.gate(DbKey::Code(h))?;
        let i = self.0.borrow();
        i.disk
            .code_by_hash(&h)
            .ok_or_else(|| DbErr(format!("unknown code hash {h}")))
    }
    fn storage_impl(&self, a: Address, k: U256) -> Result<U256, DbErr> {
        self.gate(DbKey::Storage(a, k))?;
        Ok(self.0.borrow().disk.storage(&a, &k))
    }
    fn block_hash_impl(&self, n: u64) -> Result<B256, DbErr> {
        self.gate(DbKey::BlockHash(n))?;
        Ok(self.0.borrow().disk.block_hash_of(n))
    }
    fn has_storage_impl(&self, a: Address) -> Result<bool, DbErr> {
        self.gate(DbKey::HasStorage(a))?;
        Ok(self.0.borrow().disk.has_storage(&a))
    }
}

impl Database for FaultyDb {
    type Error = DbErr;
    fn basic(&mut self, address: Address) -> Result<Option<AccountInfo>, DbErr> {
        self.basic_impl(address)
    }
    fn code_by_hash(&mut self, code_hash: B256) -> Result<Bytecode, DbErr> {
        self.code_impl(code_hash)
    }
    fn has_storage(&mut self, address: Address) -> Result<bool, DbErr> {
        self.has_storage_impl(address)
    }
    fn storage(&mut self, address: Address, index: U256) -> Result<U256, DbErr> {
        self.storage_impl(address, index)
    }
    fn block_hash(&mut self, number: u64) -> Result<B256, DbErr> {
        self.block_hash_impl(number)
    }
}

impl DatabaseRef for FaultyDb {
    type Error = DbErr;
    fn basic_ref(&self, address: Address) -> Result<Option<AccountInfo>, DbErr> {
        self.basic_impl(address)
    }
    fn code_by_hash_ref(&self, code_hash: B256) -> Result<Bytecode, DbErr> {
        self.code_impl(code_hash)
    }
    fn has_storage_ref(&self, address: Address) -> Result<bool, DbErr> {
        self.has_storage_impl(address)
    }
    fn storage_ref(&self, address: Address, index: U256) -> Result<U256, DbErr> {
        self.storage_impl(address, index)
    }
    fn block_hash_ref(&self, number: u64) -> Result<B256, DbErr> {
        self.block_hash_impl(number)
    }
}

impl DatabaseCommit for FaultyDb {
    /// Committing straight to the disk uses the reference applier (the disk *is* the
    /// reference when no revm layer sits in between).
    fn commit(&mut self, changes: EvmState) {
        let mut i = self.0.borrow_mut();
        let sc = i.state_clear;
        i.commits += 1;
        i.disk.apply_evm_state(&changes, sc);
    }
}

// component traits (for DatabaseComponents, C20)
impl revm::primitives::db::StateRef for FaultyDb {
    type Error = DbErr;
    fn basic(&self, address: Address) -> Result<Option<AccountInfo>, DbErr> {
        self.basic_impl(address)
    }
    fn code_by_hash(&self, code_hash: B256) -> Result<Bytecode, DbErr> {
        self.code_impl(code_hash)
    }
    fn storage(&self, address: Address, index: U256) -> Result<U256, DbErr> {
        self.storage_impl(address, index)
    }
    fn has_storage(&self, address: Address) -> Result<bool, DbErr> {
        self.has_storage_impl(address)
    }
}

impl revm::primitives::db::BlockHashRef for FaultyDb {
    type Error = DbErr;
    fn block_hash(&self, number: u64) -> Result<B256, DbErr> {
        self.block_hash_impl(number)
    }
}
