//! E3 wrappers mode (C20): every shipped database wrapper, stacked in drawn orders over
//! the simulated disk, must answer `basic`, `code_by_hash`, `storage`, `block_hash` and
//! `has_storage` (and the `_ref` forms) like the data it wraps plus what was committed
//! through it; database errors must be propagated, never defaulted, and never cached.
use crate::core::*;
use crate::disk::*;
use crate::sys::*;
use crate::world::*;
use revm::db::CacheDB;
use revm::primitives::db::DatabaseComponents;
use revm::primitives::{AccountInfo, Address, SpecId, B256, KECCAK_EMPTY, U256};
use revm::{Database, DatabaseCommit, DatabaseRef};
use serde::{Deserialize, Serialize};
use serde_json::json;
use std::sync::Arc;

#[derive(Clone, Debug, Serialize, Deserialize, PartialEq)]
pub enum Q {
    Basic(Address),
    Code(Address),
    Storage(Address, U256),
    BlockHash(u64),
    HasStorage(Address),
}

#[derive(Clone, Debug, Serialize, Deserialize, PartialEq)]
pub enum WOp {
    /// query; `via`: 0 direct (&mut self), 1 through `&mut DB`, 2 through `Box<DB>`-style
    /// dynamic dispatch, 3 the `_ref` form where the stack has one; `fault`: fail the n-th
    /// bottom-level call of this query
    /// `cold`: on stacks whose top layer is a CacheDB, storage / has_storage are asked
    /// without loading the account first (CacheDB loads it itself; State documents the
    /// load as a precondition, so there the account is always loaded first)
    Query {
        q: Q,
        via: u8,
        fault: Option<u64>,
        #[serde(default)]
        cold: bool,
    },
    /// execute + commit a transaction through an Evm built on this stack
    Tx(TxSpec),
    SetBlock(u64),
    /// direct mutation of a CacheDB on top of the stack (the `InMemoryDB` way of building
    /// state): insert_account_storage / replace_account_storage / insert_account_info
    /// (balance, nonce; code kept) on an account that exists
    InsertStorage(Address, U256, U256),
    ReplaceStorage(Address, Vec<(U256, U256)>),
    InsertInfo(Address, U256, u64),
}

#[derive(Clone, Copy, Debug, Serialize, Deserialize, PartialEq)]
pub enum WStack {
    Cache,
    State,
    StateBundle,
    WrapRef,
    WrapRefCache,
    CacheCache,
    StateOverCache,
    BoxedState,
    /// DatabaseComponents<Arc<FaultyDb>, Arc<FaultyDb>> (no commit path)
    Components,
    /// CacheDB<DatabaseComponents<..>>
    CacheOverComponents,
    /// CacheDB<EmptyDB> / State<EmptyDB> holding the world themselves (loaded through the
    /// insert API); block hashes are EmptyDB's keccak(decimal number)
    CacheEmpty,
    StateEmpty,
}

const WSTACKS: &[WStack] = &[WStack::Cache, WStack::State, WStack::StateBundle, WStack::WrapRef, WStack::WrapRefCache, WStack::CacheCache, WStack::StateOverCache, WStack::BoxedState, WStack::Components, WStack::CacheOverComponents, WStack::CacheEmpty, WStack::StateEmpty];

#[derive(Clone, Debug, Serialize, Deserialize)]
pub struct WrapCase {
    pub world: World,
    pub stack: WStack,
    pub ops: Vec<WOp>,
}

pub struct WrapSim;

type Comp = DatabaseComponents<Arc<FaultyDb>, Arc<FaultyDb>>;

enum WDb {
    Sys(Box<Sys>),
    Components(Comp),
    CacheOverComponents(CacheDB<Comp>),
}

#[derive(Debug, PartialEq, Clone)]
enum Ans {
    Info(Option<(U256, u64, B256, Option<Vec<u8>>)>),
    Code(Vec<u8>),
    Word(U256),
    Hash(B256),
    Bool(bool),
}

fn info_ans(i: Option<AccountInfo>) -> Ans {
    Ans::Info(i.map(|i| (i.balance, i.nonce, if i.code_hash == B256::ZERO { KECCAK_EMPTY } else { i.code_hash }, i.code.map(|c| c.original_bytes().to_vec()))))
}

thread_local! {
    static INLINE_CODE_FIRST: std::cell::Cell<bool> = const { std::cell::Cell::new(false) };
    static COLD_QUERY: std::cell::Cell<bool> = const { std::cell::Cell::new(false) };
}

fn run_query<D: Database>(db: &mut D, q: &Q, code_hash: B256) -> Result<Ans, String>
where
    D::Error: std::fmt::Debug,
{
    let e = |x: D::Error| format!("{x:?}");
    Ok(match q {
        Q::Basic(a) => info_ans(db.basic(*a).map_err(e)?),
        // accounts put into a State by `insert_account*` carry their code inline and the
        // State does not index it by hash: read it the way the EVM's `load_code` does
        Q::Code(a) if INLINE_CODE_FIRST.with(|c| c.get()) => match db.basic(*a).map_err(e)?.and_then(|i| i.code) {
            Some(c) => Ans::Code(c.original_bytes().to_vec()),
            None => Ans::Code(db.code_by_hash(code_hash).map_err(e)?.original_bytes().to_vec()),
        },
        Q::Code(_) => Ans::Code(db.code_by_hash(code_hash).map_err(e)?.original_bytes().to_vec()),
        Q::Storage(a, k) => {
            // documented precondition of State::storage: the account was loaded before
            if !COLD_QUERY.with(|c| c.get()) {
                db.basic(*a).map_err(e)?;
            }
            Ans::Word(db.storage(*a, *k).map_err(e)?)
        }
        Q::BlockHash(n) => Ans::Hash(db.block_hash(*n).map_err(e)?),
        Q::HasStorage(a) => {
            if !COLD_QUERY.with(|c| c.get()) {
                db.basic(*a).map_err(e)?;
            }
            Ans::Bool(db.has_storage(*a).map_err(e)?)
        }
    })
}

fn run_query_ref<D: DatabaseRef>(db: &D, q: &Q, code_hash: B256) -> Result<Ans, String>
where
    D::Error: std::fmt::Debug,
{
    let e = |x: D::Error| format!("{x:?}");
    Ok(match q {
        Q::Basic(a) => info_ans(db.basic_ref(*a).map_err(e)?),
        Q::Code(_) => Ans::Code(db.code_by_hash_ref(code_hash).map_err(e)?.original_bytes().to_vec()),
        Q::Storage(a, k) => Ans::Word(db.storage_ref(*a, *k).map_err(e)?),
        Q::BlockHash(n) => Ans::Hash(db.block_hash_ref(*n).map_err(e)?),
        Q::HasStorage(a) => Ans::Bool(db.has_storage_ref(*a).map_err(e)?),
    })
}

fn via_forms<D: Database>(db: &mut D, q: &Q, h: B256, via: u8) -> Result<Ans, String>
where
    D::Error: std::fmt::Debug,
{
    match via {
        1 => {
            // `&mut DB` is itself a Database (auto_impl)
            let mut r: &mut D = db;
            run_query(&mut r, q, h)
        }
        2 => {
            // dynamic dispatch through `&mut dyn Database`
            let r: &mut dyn Database<Error = D::Error> = db;
            let mut b: Box<&mut dyn Database<Error = D::Error>> = Box::new(r);
            run_query(&mut *b, q, h)
        }
        _ => run_query(db, q, h),
    }
}

impl WDb {
    fn query(&mut self, q: &Q, h: B256, via: u8, stats: &mut Stats) -> Result<Ans, String> {
        match self {
            WDb::Sys(s) => {
                let db = &mut s.evm().context.evm.db;
                if via == 3 {
                    // `_ref` forms exist for CacheDB and WrapDatabaseRef stacks
                    match db {
                        AnyDb::Cache(c) => {
                            stats.inc("probe.ref_form_query");
                            return run_query_ref(&*c, q, h);
                        }
                        AnyDb::CacheCache(c) => {
                            stats.inc("probe.ref_form_query");
                            return run_query_ref(&*c, q, h);
                        }
                        AnyDb::CacheEmpty(c) => {
                            stats.inc("probe.ref_form_query");
                            return run_query_ref(&*c, q, h);
                        }
                        AnyDb::WrapRefCache(w) => {
                            stats.inc("probe.ref_form_query");
                            return run_query_ref(&w.0, q, h);
                        }
                        AnyDb::WrapRef(w) => {
                            stats.inc("probe.ref_form_query");
                            return run_query_ref(&w.0, q, h);
                        }
                        _ => {}
                    }
                }
                via_forms(db, q, h, via)
            }
            WDb::Components(c) => {
                if via == 3 {
                    stats.inc("probe.ref_form_query");
                    run_query_ref(&*c, q, h)
                } else {
                    via_forms(c, q, h, via)
                }
            }
            WDb::CacheOverComponents(c) => {
                if via == 3 {
                    stats.inc("probe.ref_form_query");
                    run_query_ref(&*c, q, h)
                } else {
                    via_forms(c, q, h, via)
                }
            }
        }
    }
}

impl Engine for WrapSim {
    type Case = WrapCase;
    fn label(&self) -> String {
        "wrapsim/C20".into()
    }

    fn generate(&self, rng: &mut Rng) -> WrapCase {
        let mut k = WorldKnobs::new(InspKind::None);
        k.max_contracts = 4;
        k.snippets = (1, 6);
        // create / change / destroy / re-create histories of one address in half of the worlds
        // (a destroyed and re-created account is where "storage fully known" matters)
        k.lifecycle_pct = *rng.pick(&[0u64, 0, 40, 70]);
        let world = gen_world(rng, &k);
        let stack = *rng.pick(WSTACKS);
        let n = rng.range(4, 40);
        let mut ops = Vec::new();
        let fault_run = rng.chance(1, 3);
        let mut block = world.block.number;
        // accounts that exist on the disk but hold nothing (empty, or storage only): where
        // "exists" and "does not exist" are easy to confuse
        let mut special: Vec<Address> = world.disk.accounts.iter().filter(|(_, d)| d.is_empty()).map(|(a, _)| *a).collect();
        if let Some((_, child)) = world.lifecycle {
            special.push(child);
            special.push(child);
        }
        for _ in 0..n {
            let a = if !special.is_empty() && rng.chance(1, 4) { *rng.pick(&special) } else { *rng.pick(&world.universe) };
            let op = match rng.below(18) {
                0 | 1 | 2 => Q::Basic(a),
                3 | 4 => Q::Code(match rng.below(4) {
                    0 => *rng.pick(&world.eoas),
                    // (addresses a transaction may have created a contract at)
                    1 => a,
                    _ => *rng.pick(&world.contracts),
                }),
                5 | 6 | 7 => Q::Storage(if rng.chance(1, 3) { a } else { *rng.pick(&world.contracts) }, *rng.pick(&world.slots)),
                8 | 9 | 10 => {
                    // around the 256-block window, far past, the future
                    let n = match rng.below(8) {
                        0 => block,
                        1 => block.saturating_sub(1),
                        2 => block.saturating_sub(256),
                        3 => block.saturating_sub(257),
                        4 => block.saturating_sub(rng.below(300)),
                        5 => block + 1,
                        6 => 0,
                        _ => rng.below(block + 2),
                    };
                    Q::BlockHash(n)
                }
                11 | 12 => Q::HasStorage(a),
                13 => {
                    if !matches!(stack, WStack::Components | WStack::CacheOverComponents) {
                        // (EIP-7702 authorization lists included: a delegation sets code on an
                        // existing account without creating it)
                        let tx = gen_tx(rng, &world);
                        ops.push(WOp::Tx(tx));
                    }
                    continue;
                }
                16 | 17 => {
                    if matches!(stack, WStack::Cache | WStack::CacheCache | WStack::CacheEmpty | WStack::CacheOverComponents | WStack::WrapRefCache) {
                        let c = *rng.pick(&world.universe);
                        let val = |rng: &mut Rng| if rng.chance(1, 3) { U256::ZERO } else { U256::from(rng.range(1, 1000)) };
                        ops.push(match rng.below(4) {
                            0 | 1 => WOp::InsertStorage(c, *rng.pick(&world.slots), val(rng)),
                            2 => {
                                let n = rng.below(3);
                                WOp::ReplaceStorage(c, (0..n).map(|_| (*rng.pick(&world.slots), val(rng))).collect())
                            }
                            _ => WOp::InsertInfo(c, U256::from(rng.below(1_000_000)), rng.below(5)),
                        });
                    }
                    continue;
                }
                _ => {
                    block += *rng.pick(&[1u64, 1, 2, 100, 255, 256, 257, 1000]);
                    ops.push(WOp::SetBlock(block));
                    continue;
                }
            };
            let cache_top = matches!(stack, WStack::Cache | WStack::CacheCache | WStack::CacheOverComponents | WStack::CacheEmpty);
            ops.push(WOp::Query { q: op, via: rng.below(4) as u8, fault: if fault_run && rng.chance(1, 3) { Some(rng.below(3)) } else { None }, cold: cache_top && rng.bool() });
        }
        WrapCase { world, stack, ops }
    }

    fn execute(&self, case: &WrapCase, stats: &mut Stats) -> Vec<Violation> {
        let w = &case.world;
        let spec = w.cfg.spec_id();
        let sc = spec.is_enabled_in(SpecId::SPURIOUS_DRAGON);
        let mut reference = w.disk.clone();
        let layer = format!("{:?}", case.stack);
        let in_memory = matches!(case.stack, WStack::CacheEmpty | WStack::StateEmpty);
        INLINE_CODE_FIRST.with(|c| c.set(case.stack == WStack::StateEmpty));
        let bottom;
        let mut db = match case.stack {
            WStack::Components | WStack::CacheOverComponents => {
                let b = FaultyDb::new(w.disk.clone());
                {
                    let mut i = b.0.borrow_mut();
                    i.lazy_code = w.cfg.lazy_code;
                    i.empty_as_none = w.cfg.empty_as_none;
                    i.state_clear = sc;
                }
                bottom = b.clone();
                let comp = DatabaseComponents { state: Arc::new(b.clone()), block_hash: Arc::new(b) };
                if case.stack == WStack::Components {
                    WDb::Components(comp)
                } else {
                    WDb::CacheOverComponents(CacheDB::new(comp))
                }
            }
            other => {
                let mut cfg = w.cfg.clone();
                cfg.insp = InspKind::None;
                cfg.stack = match other {
                    WStack::Cache => StackKind::Cache,
                    WStack::State => StackKind::State,
                    WStack::StateBundle => StackKind::StateBundle,
                    WStack::WrapRef => StackKind::WrapRef,
                    WStack::WrapRefCache => StackKind::WrapRefCache,
                    WStack::CacheCache => StackKind::CacheCache,
                    WStack::StateOverCache => StackKind::StateOverCache,
                    WStack::CacheEmpty => StackKind::CacheEmpty,
                    WStack::StateEmpty => StackKind::StateEmpty,
                    _ => StackKind::BoxedState,
                };
                let s = Sys::new(&cfg, w.disk.clone(), &w.block);
                bottom = s.bottom.clone();
                WDb::Sys(Box::new(s))
            }
        };
        let mut out = Vec::new();
        let mut fp = Hasher64::new();
        fp.s(&layer);
        let mut block = w.block.clone();
        for (i, op) in case.ops.iter().enumerate() {
            match op {
                WOp::SetBlock(n) => {
                    block.number = *n;
                    if let WDb::Sys(s) = &mut db {
                        s.set_block(&block);
                    }
                }
                WOp::InsertStorage(..) | WOp::ReplaceStorage(..) | WOp::InsertInfo(..) => {
                    let a = match op {
                        WOp::InsertStorage(a, ..) | WOp::ReplaceStorage(a, ..) | WOp::InsertInfo(a, ..) => *a,
                        _ => unreachable!(),
                    };
                    // only accounts that exist (storage of a non-existing account has no meaning)
                    // and only non-empty ones: an empty account may be known to the cache as
                    // "not existing", and `insert_account_info` keeps that marker (the info it
                    // stores stays invisible) - a quirk of an API the property does not cover
                    if !reference.accounts.get(&a).map(|r| !r.is_empty()).unwrap_or(false) {
                        continue;
                    }
                    bottom.disarm();
                    let r = reference.accounts.get_mut(&a).unwrap();
                    let info = AccountInfo { balance: r.balance, nonce: r.nonce, code_hash: r.code_hash(), code: if r.code.is_empty() { None } else { Some(to_bytecode(&r.code)) } };
                    macro_rules! on_cache {
                        ($c:expr) => {{
                            let c = $c;
                            match op {
                                WOp::InsertStorage(_, k, v) => {
                                    c.insert_account_storage(a, *k, *v).expect("no fault armed");
                                    if v.is_zero() { r.storage.remove(k); } else { r.storage.insert(*k, *v); }
                                }
                                WOp::ReplaceStorage(_, kv) => {
                                    c.replace_account_storage(a, kv.iter().cloned().collect()).expect("no fault armed");
                                    r.storage = kv.iter().cloned().collect();
                                    r.storage.retain(|_, v| !v.is_zero());
                                }
                                WOp::InsertInfo(_, b, n) => {
                                    c.insert_account_info(a, AccountInfo { balance: *b, nonce: *n, ..info.clone() });
                                    r.balance = *b;
                                    r.nonce = *n;
                                }
                                _ => {}
                            }
                            stats.inc("ops.cache_insert_api");
                            fp.s("insert");
                        }};
                    }
                    match &mut db {
                        WDb::Sys(s) => match &mut s.evm().context.evm.db {
                            AnyDb::Cache(c) => on_cache!(c),
                            AnyDb::CacheCache(c) => on_cache!(c),
                            AnyDb::CacheEmpty(c) => on_cache!(c),
                            AnyDb::WrapRefCache(w) => on_cache!(&mut w.0),
                            _ => {}
                        },
                        WDb::CacheOverComponents(c) => on_cache!(c),
                        _ => {}
                    }
                }
                WOp::Tx(tx) => {
                    if let WDb::Sys(s) = &mut db {
                        bottom.disarm();
                        if let Ok(rs) = s.transact(tx) {
                            reference.apply_evm_state(&rs.state, sc);
                            s.commit(rs.state);
                            stats.inc("ops.commit");
                            fp.s("commit");
                        }
                    }
                }
                WOp::Query { q, via, fault, cold } => {
                    COLD_QUERY.with(|c| c.set(*cold));
                    if *cold {
                        stats.inc("probe.cold_query_without_load");
                    }
                    // expected answer from the reference
                    let (expect, h) = match q {
                        Q::Basic(a) => (
                            Ans::Info(reference.accounts.get(a).map(|d| (d.balance, d.nonce, d.code_hash(), Some(d.code.to_vec())))),
                            B256::ZERO,
                        ),
                        Q::Code(a) => match reference.accounts.get(a) {
                            Some(d) if !d.code.is_empty() => (Ans::Code(d.code.to_vec()), d.code_hash()),
                            _ => (Ans::Code(vec![]), KECCAK_EMPTY),
                        },
                        Q::Storage(a, k) => (Ans::Word(reference.storage(a, k)), B256::ZERO),
                        Q::BlockHash(n) if in_memory => (Ans::Hash(revm::primitives::keccak256(n.to_string().as_bytes())), B256::ZERO),
                        Q::BlockHash(n) => (Ans::Hash(reference.block_hash_of(*n)), B256::ZERO),
                        Q::HasStorage(a) => (Ans::Bool(reference.has_storage(a)), B256::ZERO),
                    };
                    let qname = match q {
                        Q::Basic(_) => "basic",
                        Q::Code(_) => "code_by_hash",
                        Q::Storage(..) => "storage",
                        Q::BlockHash(_) => "block_hash",
                        Q::HasStorage(_) => "has_storage",
                    };
                    fp.s(qname).u(*via as u64);
                    stats.inc(&format!("query.{qname}"));
                    let mut attempt = |db: &mut WDb, stats: &mut Stats| db.query(q, h, *via, stats);
                    if let Some(k) = fault {
                        let mut p = FaultPlan::default();
                        p.at_calls.insert(*k);
                        bottom.arm(p);
                        let fired_before = bottom.fired();
                        let r = attempt(&mut db, stats);
                        let fired = bottom.fired() > fired_before;
                        bottom.disarm();
                        if fired {
                            stats.inc("fault.F1_fired_in_query");
                            if r.is_ok() {
                                out.push(Violation::new("C20", "C20.error-propagated", &[("query", qname.into()), ("layer", layer.clone())], format!("op {i}: a bottom-level read of {q:?} failed but {layer} answered {r:?}")));
                            }
                        }
                        // (an un-faulted first attempt is judged by the second one below)
                        // the same query after the fault is gone must be right (nothing wrong was cached)
                        stats.inc("probe.query_after_fault");
                    }
                    match attempt(&mut db, stats) {
                        Ok(a) => {
                            let n0 = out.len();
                            check(&mut out, i, q, qname, &layer, &expect, &a, sc, w.cfg.lazy_code);
                            // narrow fact for known finding D14: the data below still has slots,
                            // but every one of them was zeroed by changes committed above it
                            if out.len() > n0 {
                                if let Q::HasStorage(addr) = q {
                                    let case = if expect == Ans::Bool(false) && w.disk.has_storage(addr) { "slots-zeroed-above-database" } else { "other" };
                                    let v = out.last_mut().unwrap();
                                    v.signature.insert("has_storage_case".into(), case.into());
                                    v.signature.remove("layer");
                                }
                            }
                        }
                        Err(e) => out.push(Violation::new("C20", "C20.answers", &[("query", qname.into()), ("layer", layer.clone()), ("what", "error".into())], format!("op {i}: {q:?} through {layer} failed without a fault: {e}"))),
                    }
                    if let Q::BlockHash(n) = q {
                        if *n + 256 < block.number {
                            stats.inc("probe.block_hash_outside_window");
                        }
                    }
                    if matches!(expect, Ans::Bool(true)) {
                        stats.inc(&format!("probe.has_storage_true_via_{layer}"));
                    }
                }
            }
            if out.len() >= 3 {
                break;
            }
        }
        stats.fingerprint(fp.finish());
        if stats.samples.is_empty() {
            stats.samples.push(json!({"stack": layer, "spec": w.cfg.spec, "ops": case.ops.iter().take(10).map(|o| match o { WOp::Tx(t) => format!("tx to {:?}", t.to), other => format!("{other:?}") }).collect::<Vec<_>>() }));
        }
        let mut seen = std::collections::BTreeSet::new();
        out.retain(|v| seen.insert(v.class_key()));
        out
    }

    fn shrink(&self, case: &WrapCase) -> Vec<WrapCase> {
        let mut out = Vec::new();
        for ops in shrink_vec(&case.ops) {
            if ops.is_empty() {
                continue;
            }
            let mut c = case.clone();
            c.ops = ops;
            out.push(c);
        }
        for (i, op) in case.ops.iter().enumerate() {
            if let WOp::Query { fault: Some(_), .. } = op {
                let mut c = case.clone();
                if let WOp::Query { fault, .. } = &mut c.ops[i] {
                    *fault = None;
                }
                out.push(c);
            }
            if let WOp::Query { via, .. } = op {
                if *via != 0 {
                    let mut c = case.clone();
                    if let WOp::Query { via, .. } = &mut c.ops[i] {
                        *via = 0;
                    }
                    out.push(c);
                }
            }
        }
        out
    }
}

#[allow(clippy::too_many_arguments)]
fn check(out: &mut Vec<Violation>, i: usize, q: &Q, qname: &str, layer: &str, expect: &Ans, got: &Ans, state_clear: bool, _lazy: bool) {
    let ok = match (expect, got) {
        (Ans::Info(e), Ans::Info(g)) => {
            // the caching layers keep a touched empty account as Some(empty); with state
            // clear that is the same as no account
            let norm = |x: &Option<(U256, u64, B256, Option<Vec<u8>>)>| match x {
                Some((b, n, h, _)) if state_clear && b.is_zero() && *n == 0 && *h == KECCAK_EMPTY => None,
                Some((b, n, h, _)) => Some((*b, *n, *h)),
                None => None,
            };
            let code_ok = match (e, g) {
                // code may be handed out lazily (None); if present it must be the right bytes
                (Some((_, _, _, Some(ec))), Some((_, _, _, Some(gc)))) => ec == gc,
                _ => true,
            };
            norm(e) == norm(g) && code_ok
        }
        (a, b) => a == b,
    };
    if !ok {
        out.push(Violation::new("C20", "C20.answers", &[("query", qname.to_string()), ("layer", layer.to_string()), ("what", "wrong-answer".into())], format!("op {i}: {q:?} through {layer}: expected {expect:?}, got {got:?}")));
    }
}

#[allow(dead_code)]
fn _c<T: DatabaseCommit>(_: T) {}
