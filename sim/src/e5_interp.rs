//! E5 `interpsim`: the interpreter alone (`revm-interpreter`) on generated, random and
//! corpus code with a simulated `Host` that fails on schedule (F1 at the Host seam) and a
//! simulated caller that answers every CALL/CREATE action with a drawn, legal outcome.
//! Serves C25; the same file runs under Miri in `/verif/interp-miri`.
use crate::asm::*;
use crate::core::*;
use crate::itp::analysis::{to_analysed, validate_raw_eof_inner, CodeType};
use crate::itp::opcode::InstructionTables;
use crate::itp::primitives::{
    spec_to_generic, Address, Bytecode, Bytes, Env, Log, SpecId, B256, KECCAK_EMPTY, U256,
};
use crate::itp::{
    AccountLoad, CallOutcome, Contract, CreateOutcome, Eip7702CodeLoad, Gas, Host, InstructionResult,
    Interpreter, InterpreterAction, InterpreterResult, SStoreResult, SelfDestructResult, SharedMemory,
    StateLoad,
};
use serde::{Deserialize, Serialize};
use serde_json::json;
use std::collections::BTreeMap;
use std::sync::Arc;

#[derive(Clone, Debug, Serialize, Deserialize, PartialEq)]
pub struct SubOutcome {
    /// "ok" | "revert" | "halt"
    pub kind: String,
    pub output: Bytes,
    /// gas handed back, in 1/256 of the gas limit of the sub-frame
    pub gas_left_frac: u16,
}

#[derive(Clone, Debug, Serialize, Deserialize)]
pub struct InterpCase {
    pub spec: String,
    pub code: Bytes,
    pub is_eof: bool,
    pub eof_init: bool,
    pub calldata: Bytes,
    pub gas_limit: u64,
    pub is_static: bool,
    pub value: U256,
    /// fail the n-th host call (None: never)
    pub host_fail_at: Option<u64>,
    pub outcomes: Vec<SubOutcome>,
    pub analyse: bool,
}

pub struct InterpSim {
    /// corpus of EOF containers (raw bytes), may be empty
    pub eof_corpus: Arc<Vec<Bytes>>,
}

// ---------------------------------------------------------------- simulated host

pub struct SimHost {
    env: Env,
    storage: BTreeMap<(Address, U256), U256>,
    transient: BTreeMap<(Address, U256), U256>,
    logs: Vec<Log>,
    calls: u64,
    fail_at: Option<u64>,
    pub failed: bool,
    pub steps: u64,
}

impl SimHost {
    fn gate(&mut self) -> bool {
        let i = self.calls;
        self.calls += 1;
        if Some(i) == self.fail_at {
            self.failed = true;
            false
        } else {
            true
        }
    }
    fn cold(&self, a: Address) -> bool {
        a.0[19] & 1 == 1
    }
}

impl Host for SimHost {
    fn env(&self) -> &Env {
        &self.env
    }
    fn env_mut(&mut self) -> &mut Env {
        &mut self.env
    }
    fn load_account_delegated(&mut self, address: Address) -> Option<AccountLoad> {
        if !self.gate() {
            return None;
        }
        let mut l = AccountLoad { load: Eip7702CodeLoad::new_not_delegated((), self.cold(address)), is_empty: address.0[18] & 1 == 1 };
        if address.0[17] & 3 == 3 {
            l.load.set_delegate_load(address.0[16] & 1 == 1);
        }
        Some(l)
    }
    fn block_hash(&mut self, number: u64) -> Option<B256> {
        if !self.gate() {
            return None;
        }
        Some(B256::with_last_byte(number as u8))
    }
    fn balance(&mut self, address: Address) -> Option<StateLoad<U256>> {
        if !self.gate() {
            return None;
        }
        Some(StateLoad::new(U256::from(address.0[19]), self.cold(address)))
    }
    fn code(&mut self, address: Address) -> Option<StateLoad<Bytes>> {
        if !self.gate() {
            return None;
        }
        let n = address.0[19] as usize % 70;
        Some(StateLoad::new(Bytes::from(vec![address.0[18]; n]), self.cold(address)))
    }
    fn code_hash(&mut self, address: Address) -> Option<StateLoad<B256>> {
        if !self.gate() {
            return None;
        }
        Some(StateLoad::new(if address.0[19] == 0 { B256::ZERO } else { KECCAK_EMPTY }, self.cold(address)))
    }
    fn sload(&mut self, address: Address, index: U256) -> Option<StateLoad<U256>> {
        if !self.gate() {
            return None;
        }
        let v = self.storage.get(&(address, index)).copied().unwrap_or_default();
        Some(StateLoad::new(v, index.as_limbs()[0] & 1 == 1))
    }
    fn sstore(&mut self, address: Address, index: U256, value: U256) -> Option<StateLoad<SStoreResult>> {
        if !self.gate() {
            return None;
        }
        let present = self.storage.insert((address, index), value).unwrap_or_default();
        Some(StateLoad::new(SStoreResult { original_value: U256::ZERO, present_value: present, new_value: value }, index.as_limbs()[0] & 1 == 1))
    }
    fn tload(&mut self, address: Address, index: U256) -> U256 {
        self.transient.get(&(address, index)).copied().unwrap_or_default()
    }
    fn tstore(&mut self, address: Address, index: U256, value: U256) {
        self.transient.insert((address, index), value);
    }
    fn log(&mut self, log: Log) {
        self.logs.push(log);
    }
    fn selfdestruct(&mut self, _address: Address, target: Address) -> Option<StateLoad<SelfDestructResult>> {
        if !self.gate() {
            return None;
        }
        Some(StateLoad::new(SelfDestructResult { had_value: target.0[19] & 2 == 2, target_exists: target.0[19] & 4 == 4, previously_destroyed: false }, self.cold(target)))
    }
}

const SPECS: &[SpecId] = &[
    SpecId::FRONTIER,
    SpecId::HOMESTEAD,
    SpecId::TANGERINE,
    SpecId::SPURIOUS_DRAGON,
    SpecId::BYZANTIUM,
    SpecId::PETERSBURG,
    SpecId::ISTANBUL,
    SpecId::BERLIN,
    SpecId::LONDON,
    SpecId::SHANGHAI,
    SpecId::CANCUN,
    SpecId::PRAGUE,
    SpecId::OSAKA,
];

fn spec_name(s: SpecId) -> String {
    let n: &'static str = s.into();
    n.to_string()
}

impl Engine for InterpSim {
    type Case = InterpCase;
    fn label(&self) -> String {
        "interpsim/C25".into()
    }

    fn generate(&self, rng: &mut Rng) -> InterpCase {
        let mut spec = *rng.pick(SPECS);
        let use_eof = !self.eof_corpus.is_empty() && rng.chance(1, 3);
        let (code, is_eof) = if use_eof && rng.chance(1, 8) {
            // RJUMPV tables whose entries point back into a NOP sled at distances that make the
            // entry bytes themselves opcodes (RETF, CALLF, JUMPF, DUPN, EOFCREATE, RJUMP...), and
            // sometimes into the table itself. A table entry is never a legal jump target, so
            // validation must reject the second kind; if it lets one through, the table bytes
            // are executed as code.
            spec = SpecId::OSAKA;
            let sled = 48usize;
            let m = rng.below(4) as usize; // max_index
            let sel = rng.below(m as u64 + 2) as u8;
            let mut c: Vec<u8> = vec![0x5b; sled];
            c.extend_from_slice(&[0x60, sel, 0xe2, m as u8]);
            let table_start = c.len();
            let end = table_start + 2 * (m + 1);
            for _ in 0..=m {
                let off: i16 = match rng.below(4) {
                    // into the instruction itself (max_index byte or any table byte)
                    0 => -(rng.range(1, 2 * (m as u64 + 1) + 1) as i16),
                    // forward: the code right after the table
                    1 => 0,
                    // back into the sled, at a distance whose low byte is an opcode
                    _ => {
                        let opc = *rng.pick(&[0xe4u8, 0xe3, 0xe5, 0xe6, 0xe7, 0xe8, 0xec, 0xee, 0xe0, 0xe1, 0xe2, 0xd1, 0xf3, 0xfd]);
                        let dist = 256 - opc as i16;
                        if (dist as usize) <= end { -dist } else { -(end as i16) }
                    }
                };
                c.extend_from_slice(&off.to_be_bytes());
            }
            let as_init = rng.bool();
            if as_init {
                c.extend_from_slice(&[0x5f, 0x5f, 0xee, 0x00]);
            } else {
                c.push(0x00);
            }
            let subs = if as_init { vec![eof_container(&[0x00], 0)] } else { vec![] };
            (eof_container_with(&c, if as_init { 2 } else { 1 }, &subs), true)
        } else if use_eof && rng.chance(1, 3) {
            // generated EOF programs (RJUMPI guards, RJUMPV tables, calls, EOFCREATE) whose
            // relative-jump offsets are then nudged: the targets move into immediates, table
            // bytes or the middle of other instructions. Validation must reject those; whatever
            // it accepts is executed
            spec = SpecId::OSAKA;
            let mut ctx = GenCtx::new(spec);
            ctx.callees = (1..6u8).map(Address::with_last_byte).collect();
            ctx.addr_pool = (0..12u8).map(|i| Address::with_last_byte(i * 7)).collect();
            ctx.guard_pct = *rng.pick(&[30u64, 90]);
            let n = rng.range(2, 8) as usize;
            let mut c = gen_eof_program(rng, &ctx, n).to_vec();
            if rng.chance(3, 4) {
                let sites: Vec<usize> = (0..c.len().saturating_sub(3)).filter(|i| matches!(c[*i], 0xe0 | 0xe1 | 0xe2)).collect();
                for _ in 0..rng.range(1, 2) {
                    if sites.is_empty() {
                        break;
                    }
                    let at = *rng.pick(&sites);
                    // RJUMP/RJUMPI: low byte of the offset; RJUMPV: low byte of a table entry
                    let idx = if c[at] == 0xe2 { at + 3 + 2 * rng.below(c[at + 1] as u64 + 1) as usize } else { at + 2 };
                    if idx < c.len() {
                        let d = rng.range(1, 6) as u8;
                        c[idx] = if rng.bool() { c[idx].wrapping_add(d) } else { c[idx].wrapping_sub(d) };
                    }
                }
            }
            (Bytes::from(c), true)
        } else if use_eof {
            spec = SpecId::OSAKA;
            let mut c = rng.pick(&self.eof_corpus).to_vec();
            // mutated containers: only those that still validate are executed
            if rng.chance(1, 3) && !c.is_empty() {
                for _ in 0..rng.range(1, 3) {
                    let i = rng.below(c.len() as u64) as usize;
                    c[i] = rng.below(256) as u8;
                }
            }
            (Bytes::from(c), true)
        } else {
            let code = match rng.below(4) {
                0 => {
                    let n = rng.below(120) as usize + 1;
                    Bytes::from(rng.bytes(n))
                }
                _ => {
                    let mut ctx = GenCtx::new(spec);
                    ctx.callees = (1..6u8).map(Address::with_last_byte).collect();
                    ctx.addr_pool = (0..12u8).map(|i| Address::with_last_byte(i * 7)).collect();
                    ctx.initcodes = vec![Bytes::from(vec![0x00]), Bytes::from(rng.bytes(20))];
                    ctx.w_raw = 3;
                    ctx.guard_pct = *rng.pick(&[0u64, 50]);
                    let n = rng.range(1, 14) as usize;
                    let mut p = gen_program(rng, &ctx, n, 0).to_vec();
                    if rng.chance(1, 4) && !p.is_empty() {
                        // mutate: truncated pushes, bad jump targets, unknown opcodes
                        for _ in 0..rng.range(1, 4) {
                            let i = rng.below(p.len() as u64) as usize;
                            p[i] = rng.below(256) as u8;
                        }
                        if rng.bool() {
                            p.truncate(rng.below(p.len() as u64) as usize + 1);
                        }
                    }
                    Bytes::from(p)
                }
            };
            (code, false)
        };
        let code_for_role = code.clone();
        let n_out = rng.range(1, 4);
        let outcomes = (0..n_out)
            .map(|_| {
                let n = rng.below(80) as usize;
                SubOutcome { kind: rng.pick(&["ok", "ok", "revert", "halt"]).to_string(), output: Bytes::from(rng.bytes(n)), gas_left_frac: rng.below(257) as u16 }
            })
            .collect();
        let nd = rng.below(40) as usize;
        InterpCase {
            spec: spec_name(spec),
            code,
            is_eof,
            eof_init: is_eof && validate_raw_eof_inner(code_for_role.clone(), Some(CodeType::ReturnOrStop)).is_err(),
            calldata: Bytes::from((0..nd).map(|_| if rng.chance(3, 4) { rng.range(1, 255) as u8 } else { 0 }).collect::<Vec<u8>>()),
            gas_limit: match rng.below(8) {
                0 => rng.below(100),
                1 => rng.below(30_000),
                2 => 0,
                // under Miri the step count is kept small through the gas limit
                _ if cfg!(miri) => 5_000 + rng.below(40_000),
                _ => 50_000 + rng.below(1_000_000),
            },
            is_static: rng.chance(1, 6),
            value: if rng.chance(1, 4) { U256::from(rng.below(100)) } else { U256::ZERO },
            host_fail_at: if rng.chance(1, 3) { Some(rng.below(10)) } else { None },
            outcomes,
            analyse: rng.bool(),
        }
    }

    fn execute(&self, case: &InterpCase, stats: &mut Stats) -> Vec<Violation> {
        run_interp_case(case, stats)
    }

    fn shrink(&self, case: &InterpCase) -> Vec<InterpCase> {
        let mut out = Vec::new();
        if !case.is_eof {
            for code in shrink_vec(&case.code.to_vec()) {
                let mut c = case.clone();
                c.code = Bytes::from(code);
                out.push(c);
            }
        }
        if case.host_fail_at.is_some() {
            let mut c = case.clone();
            c.host_fail_at = None;
            out.push(c);
        }
        if !case.calldata.is_empty() {
            let mut c = case.clone();
            c.calldata = Bytes::new();
            out.push(c);
        }
        if case.outcomes.len() > 1 {
            let mut c = case.clone();
            c.outcomes.truncate(1);
            out.push(c);
        }
        out
    }
}

fn viol(oracle: &str, sig: &[(&str, String)], msg: String) -> Vec<Violation> {
    vec![Violation::new("C25", oracle, sig, msg)]
}

pub fn run_interp_case(case: &InterpCase, stats: &mut Stats) -> Vec<Violation> {
    let spec = SpecId::from(case.spec.as_str());
    // ---- bytecode
    let bytecode = if case.is_eof {
        // a container is validated for the role it is executed in: init code must end in
        // RETURNCONTRACT, runtime code in STOP/RETURN
        let role = if case.eof_init { CodeType::ReturnContract } else { CodeType::ReturnOrStop };
        match validate_raw_eof_inner(case.code.clone(), Some(role)) {
            Ok(eof) => {
                stats.inc("probe.eof_container_validated");
                Bytecode::Eof(Arc::new(eof))
            }
            Err(_) => {
                stats.inc("counters.eof_container_rejected");
                return vec![];
            }
        }
    } else if case.analyse {
        to_analysed(Bytecode::new_legacy(case.code.clone()))
    } else {
        // lazy analysis path: Contract::new analyses it
        Bytecode::new_legacy(case.code.clone())
    };
    let me = Address::with_last_byte(0x77);
    let contract = Contract::new(case.calldata.clone(), if case.is_eof || case.analyse { bytecode } else { to_analysed(bytecode) }, None, me, None, Address::with_last_byte(0x11), case.value);
    let mut interp = Interpreter::new(contract, case.gas_limit, case.is_static);
    if case.eof_init {
        interp.set_is_eof_init();
    }
    let mut host = SimHost { env: Env::default(), storage: BTreeMap::new(), transient: BTreeMap::new(), logs: vec![], calls: 0, fail_at: case.host_fail_at, failed: false, steps: 0 };
    host.env.cfg.chain_id = 1;
    let mut table: InstructionTables<'_, SimHost> = spec_to_generic!(spec, InstructionTables::new_plain::<SPEC>());
    table.update_all(|prev, i: &mut Interpreter, h: &mut SimHost| {
        h.steps += 1;
        prev(i, h)
    });
    let InstructionTables::Boxed(table) = &table else { return viol("harness", &[], "table not boxed".into()) };
    let mut memory = SharedMemory::new();
    memory.new_context();
    let mut sub_no = 0usize;
    let step_bound = case.gas_limit.saturating_add(2);
    let mut fp = Hasher64::new();
    fp.s(&case.spec).u(case.is_eof as u64).b(&case.code).u(case.host_fail_at.map(|x| x + 1).unwrap_or(0));
    let result: InterpreterResult = loop {
        let action = interp.run(memory, table, &mut host);
        memory = interp.take_memory();
        if host.steps > step_bound {
            return viol("C25.terminates", &[], format!("{} steps executed with a gas limit of {}", host.steps, case.gas_limit));
        }
        if interp.gas.remaining() > case.gas_limit {
            return viol("C25.gas-bound", &[], format!("remaining gas {} exceeds the limit {}", interp.gas.remaining(), case.gas_limit));
        }
        if interp.stack.len() > 1024 {
            return viol("C25.stack-bound", &[], format!("stack holds {} words", interp.stack.len()));
        }
        let o = &case.outcomes[sub_no % case.outcomes.len().max(1)];
        let mk = |limit: u64, ok_res: InstructionResult| {
            let (res, frac) = match o.kind.as_str() {
                "ok" => (ok_res, o.gas_left_frac),
                "revert" => (InstructionResult::Revert, o.gas_left_frac),
                _ => (InstructionResult::OutOfGas, 0),
            };
            let mut g = Gas::new(limit);
            let left = (limit as u128 * frac.min(256) as u128 / 256) as u64;
            let _ = g.record_cost(limit - left);
            InterpreterResult { result: res, output: if res == InstructionResult::OutOfGas { Bytes::new() } else { o.output.clone() }, gas: g }
        };
        match action {
            InterpreterAction::Return { result } => break result,
            InterpreterAction::Call { inputs } => {
                fp.s("call");
                stats.inc("probe.sub_call_answered");
                // the caller's side of a frame: context pushed and popped around the child
                memory.new_context();
                memory.free_context();
                let out = CallOutcome::new(mk(inputs.gas_limit, InstructionResult::Return), inputs.return_memory_offset.clone());
                interp.insert_call_outcome(&mut memory, out);
            }
            InterpreterAction::Create { inputs } => {
                fp.s("create");
                stats.inc("probe.sub_create_answered");
                memory.new_context();
                memory.free_context();
                let r = mk(inputs.gas_limit, InstructionResult::Return);
                let addr = if r.result.is_ok() { Some(Address::with_last_byte(0xcc)) } else { None };
                interp.insert_create_outcome(CreateOutcome::new(r, addr));
            }
            InterpreterAction::EOFCreate { inputs } => {
                fp.s("eofcreate");
                stats.inc("probe.sub_eofcreate_answered");
                memory.new_context();
                memory.free_context();
                let r = mk(inputs.gas_limit, InstructionResult::ReturnContract);
                let addr = if r.result.is_ok() { Some(Address::with_last_byte(0xcc)) } else { None };
                interp.insert_eofcreate_outcome(CreateOutcome::new(r, addr));
            }
            InterpreterAction::None => return viol("C25.defined-outcome", &[], "interpreter stopped without an action".into()),
        }
        sub_no += 1;
        if sub_no > 100_000 {
            return viol("C25.terminates", &[], "more than 100000 sub-calls".into());
        }
    };
    memory.free_context();
    stats.add("steps.executed", host.steps);
    if host.steps > step_bound {
        return viol("C25.terminates", &[], format!("{} steps executed with a gas limit of {}", host.steps, case.gas_limit));
    }
    if result.result == InstructionResult::Continue || result.result == InstructionResult::CallOrCreate {
        return viol("C25.defined-outcome", &[("result", format!("{:?}", result.result))], format!("frame ended with the non-final result {:?}", result.result));
    }
    if result.gas.remaining() > case.gas_limit || result.gas.limit() != case.gas_limit {
        return viol("C25.gas-bound", &[], format!("final gas {:?} inconsistent with the limit {}", result.gas, case.gas_limit));
    }
    if host.failed {
        stats.inc("fault.F1_host_call_failed");
        if result.result != InstructionResult::FatalExternalError {
            // after a failed host call the frame must stop with the fatal error (never continue
            // with a made-up value); an earlier halt of the same instruction is not possible
            return viol("C25.host-failure", &[("result", format!("{:?}", result.result))], format!("a host call failed but the frame ended with {:?}", result.result));
        }
    }
    fp.s(&format!("{:?}", result.result));
    stats.inc(&format!("outcome.{:?}", result.result));
    if host.steps >= 2 {
        stats.fingerprint(fp.u(host.steps.min(50)).finish());
    }
    if stats.samples.is_empty() {
        stats.samples.push(json!({"spec": case.spec, "eof": case.is_eof, "code": case.code, "gas_limit": case.gas_limit, "host_fail_at": case.host_fail_at, "steps": host.steps, "result": format!("{:?}", result.result)}));
    }
    vec![]
}

/// Load every "code" string of the shipped EOF test vectors (valid and invalid ones; the
/// engine keeps only what revm's own validation accepts).
pub fn load_eof_corpus(dir: &str) -> Vec<Bytes> {
    fn walk(p: &std::path::Path, out: &mut Vec<Bytes>) {
        let Ok(rd) = std::fs::read_dir(p) else { return };
        let mut entries: Vec<_> = rd.flatten().map(|e| e.path()).collect();
        entries.sort();
        for e in entries {
            if e.is_dir() {
                walk(&e, out);
            } else if e.extension().map(|x| x == "json").unwrap_or(false) {
                let Ok(text) = std::fs::read_to_string(&e) else { continue };
                if text.trim().is_empty() {
                    continue;
                }
                let Ok(v) = serde_json::from_str::<serde_json::Value>(&text) else { continue };
                if let Some(obj) = v.as_object() {
                    for t in obj.values() {
                        if let Some(vecs) = t.get("vectors").and_then(|x| x.as_object()) {
                            for vv in vecs.values() {
                                if let Some(code) = vv.get("code").and_then(|c| c.as_str()) {
                                    let h = code.trim_start_matches("0x");
                                    if h.len() <= 4000 {
                                        if let Ok(b) = hex_decode(h) {
                                            out.push(Bytes::from(b));
                                        }
                                    }
                                }
                            }
                        }
                    }
                }
            }
        }
    }
    let mut out = Vec::new();
    walk(std::path::Path::new(dir), &mut out);
    out.sort();
    out.dedup();
    // keep what revm's own validation accepts (mutated copies are re-validated per run)
    out.retain(|b| validate_raw_eof_inner(b.clone(), Some(CodeType::ReturnOrStop)).is_ok() || validate_raw_eof_inner(b.clone(), Some(CodeType::ReturnContract)).is_ok());
    out
}

fn hex_decode(s: &str) -> Result<Vec<u8>, ()> {
    if s.len() % 2 != 0 {
        return Err(());
    }
    (0..s.len()).step_by(2).map(|i| u8::from_str_radix(&s[i..i + 2], 16).map_err(|_| ())).collect()
}
