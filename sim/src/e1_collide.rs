//! E1, collision mode (C21): create collision matrix
//! target pre-state x layer that holds it x create kind x spec.
use crate::asm::*;
use crate::core::*;
use crate::disk::*;
use crate::sys::*;
use crate::world::*;
use revm::primitives::{Address, Bytes, ExecutionResult, HaltReason, SpecId, B256, U256};
use revm::Database;
use serde::{Deserialize, Serialize};
use serde_json::json;

#[derive(Clone, Copy, Debug, Serialize, Deserialize, PartialEq)]
pub enum TargetState {
    Absent,
    Code,
    Nonce,
    StorageOnly,
    BalanceOnly,
    NonceAndStorage,
}

#[derive(Clone, Copy, Debug, Serialize, Deserialize, PartialEq)]
pub enum CreateKind {
    Create,
    Create2,
    CreateTx,
    /// EOFCREATE from an EOF factory (OSAKA)
    EofCreate,
    /// create transaction whose init data is an EOF init container (OSAKA)
    EofCreateTx,
}

impl CreateKind {
    fn is_tx(self) -> bool {
        matches!(self, CreateKind::CreateTx | CreateKind::EofCreateTx)
    }
    fn is_eof(self) -> bool {
        matches!(self, CreateKind::EofCreate | CreateKind::EofCreateTx)
    }
}

#[derive(Clone, Debug, Serialize, Deserialize)]
pub struct CollideCase {
    pub cfg: SysCfg,
    pub block: BlockSpec,
    pub target_state: TargetState,
    pub kind: CreateKind,
    /// put the target's storage into the CacheDB with insert_account_storage instead of on disk
    pub insert_into_cache: bool,
    /// touch the target through the stack (BALANCE) in an earlier transaction first
    pub warm_up_first: bool,
    /// the warm-up transaction also pays the target one wei
    #[serde(default)]
    pub warm_pay: bool,
    /// EIP-2930 access list naming the target (Berlin+): 0 none, 1 on the create transaction,
    /// 2 on the warm-up transaction; `al_slots`: 0 no slot, 1 an empty slot, 2 the slot that
    /// holds a value, 3 both. (Reading an empty slot of the target through a caching layer
    /// must not make it look as if the target had no storage.)
    #[serde(default)]
    pub al_on: u8,
    #[serde(default)]
    pub al_slots: u8,
    pub value: U256,
    pub salt: U256,
    pub sender_nonce: u64,
    pub factory_nonce: u64,
}

pub struct CollideSim;

const INIT_RUNTIME: &[u8] = &[0x60, 0x2a, 0x60, 0x00, 0x55, 0x00]; // SSTORE(0,42); STOP (runtime)

fn initcode() -> Bytes {
    // prologue stores into the *new* account's slot 7, then returns the runtime
    let mut p = Asm::new();
    p.push_u(9).push_u(7).op(op::SSTORE);
    wrap_initcode(&p.code, INIT_RUNTIME)
}

/// EOF runtime deployed by the EOF kinds
fn eof_runtime() -> Bytes {
    eof_container(&[op::STOP], 0)
}

/// EOF init container: SSTORE(7, 9) in the new account, then RETURNCONTRACT of `eof_runtime`
fn eof_initcontainer() -> Bytes {
    let mut a = Asm::new();
    a.push_u(9).push_u(7).op(op::SSTORE);
    a.push_u(0).push_u(0).op(0xee).raw(&[0]);
    eof_container_with(&a.code, 2, &[eof_runtime()])
}

/// EOF factory: slot 0 := EOFCREATE[0](value, salt, no input); slot 3 := 1; STOP.
/// (GAS does not exist in EOF: the gas consumed is judged from the transaction's gas used.)
fn eof_factory_code(value: U256, salt: U256) -> Bytes {
    let mut a = Asm::new();
    a.push_u(0).push_u(0).push(salt).push(value).op(0xec).raw(&[0]);
    a.push_u(0).op(op::SSTORE);
    a.push_u(1).push_u(3).op(op::SSTORE);
    a.op(op::STOP);
    eof_container_with(&a.code, 4, &[eof_initcontainer()])
}

fn factory_code(create2: bool, value: U256, salt: U256) -> Bytes {
    let mut a = Asm::new();
    // slot 2 := gas before
    a.op(op::GAS).push_u(2).op(op::SSTORE);
    a.op(op::GAS); // keep gas before on the stack
    let ic = initcode();
    for (i, chunk) in ic.chunks(32).enumerate() {
        let mut w = [0u8; 32];
        w[..chunk.len()].copy_from_slice(chunk);
        a.op(op::PUSH32).raw(&w).push_u(32 * i as u64).op(op::MSTORE);
    }
    if create2 {
        a.push(salt);
    }
    a.push_u(ic.len() as u64).push_u(0).push(value);
    a.op(if create2 { op::CREATE2 } else { op::CREATE });
    // stack: result, gas_before.  slot 0 := result
    a.push_u(0).op(op::SSTORE);
    // slot 1 := gas_before - gas_now
    a.op(op::GAS).op(op::SWAP1).op(op::SUB).push_u(1).op(op::SSTORE);
    // slot 3 := 1 (the factory survived)
    a.push_u(1).push_u(3).op(op::SSTORE);
    a.op(op::STOP);
    a.bytes()
}

fn access_list(target: Address, slots: u8) -> Vec<(Address, Vec<U256>)> {
    let mut ks = vec![];
    if slots & 1 != 0 {
        ks.push(U256::from(6)); // empty in every target state
    }
    if slots & 2 != 0 {
        ks.push(U256::from(5)); // the slot the storage-holding targets use
    }
    vec![(target, ks)]
}

impl Engine for CollideSim {
    type Case = CollideCase;
    fn label(&self) -> String {
        "collidesim/C21".into()
    }

    fn generate(&self, rng: &mut Rng) -> CollideCase {
        let kind = *rng.pick(&[CreateKind::Create, CreateKind::Create2, CreateKind::CreateTx, CreateKind::Create, CreateKind::Create2, CreateKind::CreateTx, CreateKind::EofCreate, CreateKind::EofCreateTx]);
        let mut specs: Vec<SpecId> = LEGACY_SPECS
            .iter()
            .cloned()
            .filter(|s| match kind {
                CreateKind::Create => s.is_enabled_in(SpecId::TANGERINE),
                CreateKind::Create2 => s.is_enabled_in(SpecId::PETERSBURG),
                CreateKind::CreateTx => true,
                CreateKind::EofCreate | CreateKind::EofCreateTx => false,
            })
            .collect();
        if kind.is_eof() {
            specs = vec![SpecId::OSAKA];
        } else if rng.chance(1, 12) {
            // legacy creates under the EOF fork as well
            specs = vec![SpecId::OSAKA];
        }
        let spec = *rng.pick(&specs);
        let stack = *rng.pick(ALL_STACKS);
        let target_state = *rng.pick(&[TargetState::Absent, TargetState::Code, TargetState::Nonce, TargetState::StorageOnly, TargetState::StorageOnly, TargetState::BalanceOnly, TargetState::NonceAndStorage]);
        let salt = rng.next_u64();
        let block = BlockSpec {
            number: 100,
            coinbase: addr_from(salt, 999),
            timestamp: 1_700_000_000,
            gas_limit: U256::from(30_000_000u64),
            basefee: U256::ZERO,
            difficulty: U256::ZERO,
            prevrandao: Some(B256::ZERO),
            excess_blob_gas: Some(0),
        };
        CollideCase {
            cfg: SysCfg { spec: spec_name(spec), stack, insp: InspKind::None, lazy_code: rng.chance(1, 3), empty_as_none: rng.bool(), analyse: rng.bool(), code_size_limit: None, chain_id: 1, reward: true, fault_precompile: false },
            block,
            target_state,
            kind,
            insert_into_cache: matches!(stack, StackKind::Cache | StackKind::MutRefCache) && target_state == TargetState::StorageOnly && rng.bool(),
            warm_up_first: rng.chance(1, 2),
            warm_pay: rng.bool(),
            al_on: if spec.is_enabled_in(SpecId::BERLIN) && rng.chance(1, 3) { rng.range(1, 2) as u8 } else { 0 },
            al_slots: rng.below(4) as u8,
            value: if rng.chance(1, 3) { U256::from(rng.range(1, 100)) } else { U256::ZERO },
            salt: U256::from(salt),
            sender_nonce: rng.below(3),
            factory_nonce: 1 + rng.below(3),
        }
    }

    fn execute(&self, c: &CollideCase, stats: &mut Stats) -> Vec<Violation> {
        let spec = c.cfg.spec_id();
        let sc = spec.is_enabled_in(SpecId::SPURIOUS_DRAGON);
        let seed = c.salt.as_limbs()[0];
        let sender = addr_from(seed, 1);
        let factory = addr_from(seed, 2);
        let toucher = addr_from(seed, 3);
        let ic = if c.kind.is_eof() { eof_initcontainer() } else { initcode() };
        let runtime: Bytes = if c.kind.is_eof() { eof_runtime() } else { Bytes::from_static(INIT_RUNTIME) };
        let target = match c.kind {
            CreateKind::Create => create_address(factory, c.factory_nonce),
            CreateKind::Create2 | CreateKind::EofCreate => create2_address(factory, c.salt, &ic),
            // a warm-up transaction by the same sender bumps its nonce first
            CreateKind::CreateTx | CreateKind::EofCreateTx => create_address(sender, c.sender_nonce + c.warm_up_first as u64),
        };
        let mut disk = SimDisk { hash_salt: seed, ..Default::default() };
        disk.accounts.insert(sender, DiskAccount { balance: U256::from(10u64).pow(U256::from(22)), nonce: c.sender_nonce, ..Default::default() });
        disk.accounts.insert(factory, DiskAccount { balance: U256::from(1_000_000u64), nonce: c.factory_nonce, code: if c.kind == CreateKind::EofCreate { eof_factory_code(c.value, c.salt) } else { factory_code(c.kind == CreateKind::Create2, c.value, c.salt) }, ..Default::default() });
        // toucher: BALANCE(target); EXTCODESIZE(target); with `warm_pay` it also sends the
        // target one wei, so that the layers hold it as touched-and-changed (not merely
        // loaded) when the create arrives. (A zero-value touch is not used: it would delete a
        // storage-only target under EIP-161.)
        let pays = c.warm_up_first && c.warm_pay;
        let mut t = Asm::new();
        t.push_addr(target).op(op::BALANCE).op(op::POP).push_addr(target).op(op::EXTCODESIZE).op(op::POP);
        if pays {
            t.push_u(0).push_u(0).push_u(0).push_u(0).push_u(1).push_addr(target).push_u(50_000).op(op::CALL).op(op::POP);
        }
        t.op(op::STOP);
        disk.accounts.insert(toucher, DiskAccount { nonce: 1, balance: U256::from(1000u64), code: t.bytes(), ..Default::default() });
        let mut tacc = DiskAccount::default();
        let mut on_disk = true;
        match c.target_state {
            TargetState::Absent => on_disk = false,
            TargetState::Code => tacc.code = Bytes::from(vec![0x00]),
            TargetState::Nonce => tacc.nonce = 1,
            TargetState::StorageOnly => {
                tacc.storage.insert(U256::from(5), U256::from(77));
            }
            TargetState::BalanceOnly => tacc.balance = U256::from(12345u64),
            TargetState::NonceAndStorage => {
                tacc.nonce = 3;
                tacc.storage.insert(U256::from(5), U256::from(77));
            }
        }
        let expect_collision = !tacc.code.is_empty() || tacc.nonce != 0 || !tacc.storage.is_empty();
        let target_before = tacc.clone();
        if on_disk && !c.insert_into_cache {
            disk.accounts.insert(target, tacc.clone());
        }
        let mut sys = Sys::new(&c.cfg, disk, &c.block);
        if c.insert_into_cache {
            if let AnyDb::Cache(cdb) = &mut sys.evm().context.evm.db {
                for (k, v) in &tacc.storage {
                    cdb.insert_account_storage(target, *k, *v).unwrap();
                }
                stats.inc("probe.storage_inserted_into_cachedb");
            }
        }
        let mut out = Vec::new();
        if c.warm_up_first {
            let mut tx = TxSpec::simple(sender, Some(toucher), Bytes::new(), 200_000);
            if c.al_on == 2 {
                tx.access_list = access_list(target, c.al_slots);
                stats.inc("probe.access_list_names_target_in_earlier_tx");
            }
            let _ = sys.transact_commit(&tx);
        }
        // reading through the stack loads the target into the caches, so it is only done when
        // the target was touched already (otherwise the expectation is what was put on disk)
        let pre_target = if c.warm_up_first || c.insert_into_cache {
            sys.read_account(target, &[U256::from(5), U256::from(7)]).unwrap()
        } else if on_disk {
            Some(target_before.clone())
        } else {
            None
        };
        let sender_nonce_before = sys.read_account(sender, &[]).unwrap().map(|a| a.nonce).unwrap_or(0);
        let factory_nonce_before = sys.read_account(factory, &[]).unwrap().map(|a| a.nonce).unwrap_or(0);
        // a failed CREATE leaves the factory 1/64 of its gas; that must cover three SSTOREs
        let gas_limit = 12_000_000u64;
        let mut tx = if c.kind.is_tx() { TxSpec::simple(sender, None, ic.clone(), gas_limit) } else { TxSpec::simple(sender, Some(factory), Bytes::new(), gas_limit) };
        if c.kind.is_tx() {
            tx.value = c.value;
        }
        if c.al_on == 1 {
            tx.access_list = access_list(target, c.al_slots);
            stats.inc("probe.access_list_names_target_in_create_tx");
        }
        let res = sys.transact_commit(&tx);
        let layer = format!("{:?}{}", c.cfg.stack, if c.insert_into_cache { "+inserted" } else { "" });
        let key = format!("{:?}/{:?}", c.target_state, c.kind);
        stats.inc(&format!("matrix.{layer}"));
        stats.inc(&format!("cell.{key}"));
        let slots = [U256::from(0), U256::from(1), U256::from(2), U256::from(3), U256::from(5), U256::from(7)];
        let after_target = sys.read_account(target, &slots).unwrap();
        let sig_base = |what: &str| vec![("what", what.to_string()), ("target", format!("{:?}", c.target_state)), ("layer", layer.clone())];
        let collided: Option<bool> = match (&res, c.kind.is_tx()) {
            (TxOutcome::Ok(ExecutionResult::Halt { reason, gas_used }), true) => {
                if *reason == HaltReason::CreateCollision {
                    if *gas_used != gas_limit {
                        out.push(Violation::new("C21", "C21.collision", &sig_base("gas-not-consumed"), format!("create transaction collided but used {gas_used} of {gas_limit}")));
                    }
                    Some(true)
                } else {
                    out.push(Violation::new("C21", "C21.collision", &sig_base("unexpected-halt"), format!("create transaction halted with {reason:?}")));
                    None
                }
            }
            (TxOutcome::Ok(ExecutionResult::Success { .. }), true) => Some(false),
            (TxOutcome::Ok(ExecutionResult::Success { gas_used, .. }), false) => {
                let f = sys.read_account(factory, &slots).unwrap().unwrap_or_default();
                let result = f.storage.get(&U256::from(0)).cloned().unwrap_or_default();
                let survived = f.storage.get(&U256::from(3)).cloned().unwrap_or_default() == U256::from(1);
                if !survived {
                    out.push(Violation::new("C21", "C21.collision", &sig_base("factory-did-not-finish"), "factory did not reach its end".into()));
                    None
                } else if result.is_zero() {
                    // failed create: the gas passed must be gone (all but 1/64 of what was left)
                    let gas_before = f.storage.get(&U256::from(2)).cloned().unwrap_or_default();
                    let (gas_before, diff) = if c.kind == CreateKind::EofCreate {
                        // no GAS opcode in EOF: the transaction's gas used stands in (the
                        // factory spends < 100k outside the create)
                        (U256::from(gas_limit - 100_000), U256::from(*gas_used))
                    } else {
                        (gas_before, f.storage.get(&U256::from(1)).cloned().unwrap_or_default())
                    };
                    if diff < gas_before / U256::from(64) * U256::from(60) {
                        out.push(Violation::new("C21", "C21.collision", &sig_base("gas-not-consumed"), format!("failed create consumed {diff} of {gas_before}")));
                    }
                    Some(true)
                } else {
                    if result != U256::from_be_slice(target.as_slice()) {
                        out.push(Violation::new("C21", "C21.collision", &sig_base("wrong-address"), format!("create returned {result:#x}, expected {target}")));
                    }
                    Some(false)
                }
            }
            (other, _) => {
                out.push(Violation::new("C21", "C21.collision", &sig_base("unexpected-outcome"), format!("unexpected outcome {}", other.class())));
                None
            }
        };
        if let Some(col) = collided {
            stats.inc(if col { "probe.collision_detected" } else { "probe.creation_succeeded" });
            if col != expect_collision {
                out.push(Violation::new(
                    "C21",
                    "C21.collision",
                    &sig_base(if expect_collision { "missed-collision" } else { "spurious-collision" }),
                    format!("{:?} onto a target with {:?} held by {layer}: collision expected {expect_collision}, observed {col}", c.kind, c.target_state),
                ));
            } else if col {
                // target unchanged
                // (compared with what the same stack answered before the transaction: storage
                // inserted into a CacheDB for a missing account is not visible through `basic`)
                let now = after_target.clone().unwrap_or_default();
                let want = pre_target.clone().unwrap_or_default();
                let same = now.balance == want.balance && now.nonce == want.nonce && now.code == want.code && now.storage.get(&U256::from(5)) == want.storage.get(&U256::from(5)) && now.storage.get(&U256::from(7)).is_none();
                if !same {
                    out.push(Violation::new("C21", "C21.collision", &sig_base("target-changed"), format!("collision changed the target: {want:?} -> {now:?}")));
                }
                // creator nonce still bumped
                let (who, before) = if c.kind.is_tx() { (sender, sender_nonce_before) } else { (factory, factory_nonce_before) };
                let n = sys.read_account(who, &[]).unwrap().map(|a| a.nonce).unwrap_or(0);
                if n != before + 1 {
                    out.push(Violation::new("C21", "C21.collision", &sig_base("creator-nonce"), format!("creator nonce {before} -> {n} after a collision")));
                }
                if c.target_state == TargetState::StorageOnly {
                    stats.inc(&format!("probe.storage_only_collision_via_{layer}"));
                }
            } else {
                // success: code deployed, old balance kept + value, new storage only
                let now = after_target.clone().unwrap_or_default();
                let want_bal = target_before.balance + c.value + U256::from(pays as u64);
                if now.code != runtime || (sc && now.nonce != 1) || now.balance != want_bal || now.storage.get(&U256::from(7)) != Some(&U256::from(9)) {
                    out.push(Violation::new("C21", "C21.collision", &sig_base("bad-creation"), format!("successful creation left {now:?} (expected balance {want_bal})")));
                }
            }
        }
        let mut h = Hasher64::new();
        if pays {
            stats.inc("probe.target_paid_by_earlier_tx");
        }
        h.s(&c.cfg.spec).s(&layer).s(&key).u(c.al_on as u64 * 4 + c.al_slots as u64).u(c.warm_up_first as u64 + pays as u64).u(!c.value.is_zero() as u64).u(c.cfg.lazy_code as u64);
        stats.fingerprint(h.finish());
        if stats.samples.is_empty() {
            stats.samples.push(json!({"spec": c.cfg.spec, "layer": layer, "target": format!("{:?}", c.target_state), "kind": format!("{:?}", c.kind), "warm_up_first": c.warm_up_first, "expect_collision": expect_collision}));
        }
        let _ = Address::ZERO;
        out
    }

    fn shrink(&self, c: &CollideCase) -> Vec<CollideCase> {
        let mut out = Vec::new();
        if c.warm_up_first {
            let mut d = c.clone();
            d.warm_up_first = false;
            out.push(d);
        }
        if c.warm_pay {
            let mut d = c.clone();
            d.warm_pay = false;
            out.push(d);
        }
        if c.al_on != 0 {
            let mut d = c.clone();
            d.al_on = 0;
            out.push(d);
        }
        if !c.value.is_zero() {
            let mut d = c.clone();
            d.value = U256::ZERO;
            out.push(d);
        }
        if c.cfg.lazy_code {
            let mut d = c.clone();
            d.cfg.lazy_code = false;
            out.push(d);
        }
        out
    }
}

#[allow(dead_code)]
fn _db_bound<T: Database>(_: T) {}
