//! E1 `txsim`, twin modes: the same history is applied to two systems built differently
//! and the results are compared (DESIGN §4 E1): observing inspector vs none (C28), reused
//! instance vs fresh instance (C31), reward off vs reward on across reconfigurations (C22).
use crate::core::*;
use crate::disk::*;
use crate::e1_tx::valid_authorities;
use crate::model::*;
use crate::monitor::TxCtx;
use crate::sys::*;
use crate::world::*;
use alloy_primitives::U512;
use revm::primitives::{Account, Address, EvmState, ExecutionResult, SpecId, U256};
use revm::{inspector_handle_register, Evm};
use serde::{Deserialize, Serialize};
use serde_json::json;
use std::collections::BTreeMap;

#[derive(Clone, Copy, Debug, Serialize, Deserialize, PartialEq)]
pub enum Via {
    /// transact, result discarded (no commit)
    TransactOnly,
    /// transact + explicit commit of the returned state
    TransactThenCommit,
    TransactCommit,
    PreverifyOnly,
    /// preverify_transaction, then transact_preverified (+ commit)
    PreverifyThenRun,
}

#[derive(Clone, Debug, Serialize, Deserialize)]
pub enum HOp {
    Tx {
        tx: TxSpec,
        via: Via,
        #[serde(default)]
        faults: FaultPlan,
        /// enumerate a database fault at every call index of this op (fault_enumeration)
        #[serde(default)]
        enumerate: bool,
        /// F5: the faulty identity precompile returns a fatal error at its k-th call
        #[serde(default)]
        pfault: Option<u64>,
    },
    /// how: 0 = Evm::modify_spec_id, 1 = modify().with_spec_id().build()
    SetSpec { spec: String, how: u8 },
    AppendNoopRegister,
    PopRegister,
    Rebuild,
    AdvanceBlock { by: u64 },
}

#[derive(Clone, Debug, Serialize, Deserialize)]
pub struct TwinCase {
    pub world: World,
    /// inspector of the second system (C28)
    pub insp_b: InspKind,
    pub ops: Vec<HOp>,
    /// C22: the reward-off system carries no inspector (and so no inspector handler
    /// register): popping the appended registers then empties the register list, which is
    /// a rebuild path of its own; the reward-on twin's monitor alone tells whether the
    /// beneficiary was a party of the transaction
    #[serde(default)]
    pub bare_a: bool,
    /// C28, tracer twin: the trace sink fails (write call index, kind; see sys::arm_trace_fault)
    #[serde(default)]
    pub trace_fault: Option<(u64, u8)>,
}

pub struct TwinSim {
    /// "C28" | "C31" | "C22"
    pub mode: String,
}

fn noop_register(_h: &mut revm::handler::register::EvmHandler<'_, AnyInsp, AnyDb>) {}

/// normalised view of a returned EvmState (sorted; everything commit() could look at)
fn state_digest(st: &EvmState) -> BTreeMap<Address, String> {
    let mut m = BTreeMap::new();
    for (a, acc) in st.iter() {
        let acc: &Account = acc;
        let mut slots: Vec<(U256, U256, U256, bool)> = acc.storage.iter().map(|(k, s)| (*k, s.original_value, s.present_value, s.is_cold)).collect();
        slots.sort();
        m.insert(
            *a,
            format!(
                "bal={} nonce={} code={} status={:?} code_len={:?} slots={:?}",
                acc.info.balance,
                acc.info.nonce,
                acc.info.code_hash,
                acc.status,
                acc.info.code.as_ref().map(|c| c.original_bytes().len()),
                slots
            ),
        );
    }
    m
}

fn digest_diff(a: &BTreeMap<Address, String>, b: &BTreeMap<Address, String>) -> Option<String> {
    for (k, v) in a {
        match b.get(k) {
            None => return Some(format!("{k} only in the first system's state")),
            Some(w) if w != v => return Some(format!("{k}: {v} vs {w}")),
            _ => {}
        }
    }
    for k in b.keys() {
        if !a.contains_key(k) {
            return Some(format!("{k} only in the second system's state"));
        }
    }
    None
}

pub struct OpRes {
    pub outcome: TxOutcome,
    pub digest: Option<BTreeMap<Address, String>>,
    pub second: Option<TxOutcome>,
}

fn begin_monitor(sys: &mut Sys, tx: &TxSpec, coinbase: Address) {
    let spec = sys.evm().spec_id();
    let chain = sys.cfg.chain_id;
    if let Some(m) = sys.monitor() {
        m.begin_tx(
            TxCtx { spec: Some(spec), caller: tx.caller, to: tx.to, coinbase, access_list: tx.access_list.clone(), authorities: valid_authorities(tx, chain) },
            vec![],
        );
    }
}

/// Run one transaction op on a system.
pub fn run_tx(sys: &mut Sys, tx: &TxSpec, via: Via, faults: &FaultPlan, coinbase: Address) -> OpRes {
    begin_monitor(sys, tx, coinbase);
    sys.bottom.arm(faults.clone());
    let r = match via {
        Via::TransactOnly => match sys.transact(tx) {
            Ok(rs) => OpRes { outcome: TxOutcome::Ok(rs.result), digest: Some(state_digest(&rs.state)), second: None },
            Err(o) => OpRes { outcome: o, digest: None, second: None },
        },
        Via::TransactThenCommit => match sys.transact(tx) {
            Ok(rs) => {
                let d = state_digest(&rs.state);
                sys.commit(rs.state);
                OpRes { outcome: TxOutcome::Ok(rs.result), digest: Some(d), second: None }
            }
            Err(o) => OpRes { outcome: o, digest: None, second: None },
        },
        Via::TransactCommit => OpRes { outcome: sys.transact_commit(tx), digest: None, second: None },
        Via::PreverifyOnly => match sys.preverify(tx) {
            Ok(()) => OpRes { outcome: TxOutcome::Other("preverified".into()), digest: None, second: None },
            Err(o) => OpRes { outcome: o, digest: None, second: None },
        },
        Via::PreverifyThenRun => match sys.preverify(tx) {
            Ok(()) => match sys.transact_preverified(tx) {
                Ok(rs) => {
                    let d = state_digest(&rs.state);
                    sys.commit(rs.state);
                    OpRes { outcome: TxOutcome::Other("preverified".into()), digest: Some(d), second: Some(TxOutcome::Ok(rs.result)) }
                }
                Err(o) => OpRes { outcome: TxOutcome::Other("preverified".into()), digest: None, second: Some(o) },
            },
            Err(o) => OpRes { outcome: o, digest: None, second: None },
        },
    };
    sys.bottom.disarm();
    r
}

pub(crate) fn apply_reconfig(sys: &mut Sys, op: &HOp, block: &mut BlockSpec, noop_regs: &mut u32) {
    match op {
        HOp::SetSpec { spec, how } => {
            let s = SpecId::from(spec.as_str());
            let evm = sys.evm.take().unwrap();
            let evm = if *how == 0 {
                let mut e = evm;
                e.modify_spec_id(s);
                e
            } else {
                evm.modify().with_spec_id(s).build()
            };
            sys.evm = Some(evm);
            sys.cfg.spec = spec.clone();
            let b = block.clone();
            sys.set_block(&b);
        }
        HOp::AppendNoopRegister => {
            let evm = sys.evm.take().unwrap();
            sys.evm = Some(evm.modify().append_handler_register(noop_register).build());
            *noop_regs += 1;
        }
        HOp::PopRegister => {
            if *noop_regs > 0 {
                sys.evm().handler.pop_handle_register();
                *noop_regs -= 1;
            }
        }
        HOp::Rebuild => {
            let evm = sys.evm.take().unwrap();
            sys.evm = Some(evm.modify().build());
        }
        HOp::AdvanceBlock { by } => {
            block.number += by;
            block.timestamp += 12 * by;
            let b = block.clone();
            sys.set_block(&b);
        }
        HOp::Tx { .. } => {}
    }
}

fn specs_same_side(a: SpecId, b: SpecId) -> bool {
    // keep spec changes on one side of Spurious Dragon: the state-clear flag of the layers
    // below is the embedder's responsibility and is not the subject here
    a.is_enabled_in(SpecId::SPURIOUS_DRAGON) == b.is_enabled_in(SpecId::SPURIOUS_DRAGON)
}

impl Engine for TwinSim {
    type Case = TwinCase;
    fn label(&self) -> String {
        format!("twinsim/{}", self.mode)
    }

    fn generate(&self, rng: &mut Rng) -> TwinCase {
        let mut k = WorldKnobs::new(if self.mode == "C22" { InspKind::Monitor } else { InspKind::None });
        if self.mode == "C31" {
            k.tune = |c, _r| {
                c.w_transient = 10;
                c.w_log = 6;
                c.w_storage = 14;
                c.w_ext = 8;
                // precompiles are per-spec state of the instance too (prices change between
                // specs that share the address set)
                c.w_precompile = 12;
            };
        }
        let mut world = gen_world(rng, &k);
        // F5 worlds: the identity precompile is replaced by one that can fail fatally
        if self.mode != "C22" && rng.chance(1, 6) {
            world.cfg.fault_precompile = true;
        }
        let spec = world.cfg.spec_id();
        let insp_b = *rng.pick(&[InspKind::NoOp, InspKind::Gas, InspKind::Tracer, InspKind::Monitor]);
        let n = rng.range(2, 8);
        let mut ops = Vec::new();
        // C22: the reward-on twin loads the beneficiary from the database and the reward-off
        // twin does not, so a call-index fault schedule would mean different things to the
        // two systems; no database faults are injected there
        let fault_run = rng.chance(1, 3) && self.mode != "C22";
        let mut noop = 0;
        let mut last_tx: Option<TxSpec> = None;
        for _ in 0..n {
            let r = rng.below(20);
            let op = if self.mode != "C28" && r < 4 {
                // reconfiguration
                match self.mode.as_str() {
                    "C31" => {
                        if rng.bool() {
                            let cands: Vec<SpecId> = LEGACY_SPECS.iter().cloned().filter(|s| specs_same_side(*s, spec)).collect();
                            HOp::SetSpec { spec: spec_name(*rng.pick(&cands)), how: 0 }
                        } else {
                            HOp::AdvanceBlock { by: rng.pick(&[1u64, 1, 2, 255, 256, 257, 300]).clone() }
                        }
                    }
                    _ => match rng.below(6) {
                        0 | 1 => {
                            let cands: Vec<SpecId> = LEGACY_SPECS.iter().cloned().filter(|s| specs_same_side(*s, spec)).collect();
                            HOp::SetSpec { spec: spec_name(*rng.pick(&cands)), how: rng.below(2) as u8 }
                        }
                        2 => {
                            noop += 1;
                            HOp::AppendNoopRegister
                        }
                        3 if noop > 0 => {
                            noop -= 1;
                            HOp::PopRegister
                        }
                        4 => HOp::Rebuild,
                        _ => HOp::AdvanceBlock { by: 1 },
                    },
                }
            } else {
                // transaction; sometimes repeat the previous one (leak detectors: the second
                // run sees what the first left behind, if anything)
                let mut tx = match (&last_tx, rng.chance(1, 4)) {
                    (Some(t), true) => t.clone(),
                    _ => gen_tx(rng, &world),
                };
                if self.mode == "C31" {
                    match rng.below(12) {
                        0 => tx.gas_limit = 20_000,                       // rejected: below intrinsic
                        1 => tx.gas_price = U256::ZERO,                   // rejected after London when basefee > 0
                        2 => tx.nonce = Some(world.disk.nonce(&tx.caller) + 5), // rejected: nonce too high
                        _ => {}
                    }
                }
                last_tx = Some(tx.clone());
                let via = match self.mode.as_str() {
                    "C31" => *rng.pick(&[Via::TransactThenCommit, Via::TransactThenCommit, Via::TransactCommit, Via::TransactOnly, Via::PreverifyOnly, Via::PreverifyThenRun]),
                    _ => *rng.pick(&[Via::TransactThenCommit, Via::TransactThenCommit, Via::TransactCommit, Via::TransactOnly]),
                };
                let mut faults = FaultPlan::default();
                let mut enumerate = false;
                if fault_run && rng.chance(1, 3) {
                    if self.mode == "C31" && rng.bool() {
                        enumerate = true;
                    } else {
                        faults.at_calls.insert(rng.below(14));
                    }
                }
                // F5 (only in worlds built with the faulty identity precompile): aim the
                // transaction at 0x04 and let its first or second call fail fatally
                let mut pfault = None;
                if world.cfg.fault_precompile && rng.chance(1, 2) {
                    pfault = Some(rng.below(2));
                    if rng.bool() {
                        tx.to = Some(Address::with_last_byte(4));
                    }
                }
                HOp::Tx { tx, via, faults, enumerate, pfault }
            };
            ops.push(op);
        }
        let bare_a = self.mode == "C22" && rng.bool();
        let trace_fault = if self.mode == "C28" && insp_b == InspKind::Tracer && rng.chance(2, 3) { Some((if rng.bool() { rng.below(6) } else { rng.below(200) }, rng.below(6) as u8)) } else { None };
        TwinCase { world, insp_b, ops, bare_a, trace_fault }
    }

    fn execute(&self, case: &TwinCase, stats: &mut Stats) -> Vec<Violation> {
        // fault enumeration: expand every `enumerate` op into one run per call index
        let enum_ops: Vec<usize> = case.ops.iter().enumerate().filter(|(_, o)| matches!(o, HOp::Tx { enumerate: true, .. })).map(|(i, _)| i).collect();
        if enum_ops.is_empty() {
            return run_twin(case, &self.mode, stats, None);
        }
        // fault-free pass first (also measures the number of database calls of each op)
        let mut calls: Vec<u64> = Vec::new();
        let mut out = run_twin(case, &self.mode, stats, Some(&mut calls));
        if !out.is_empty() {
            return out;
        }
        for i in enum_ops {
            let n = calls.get(i).copied().unwrap_or(0).min(48);
            for k in 0..n {
                let mut c = case.clone();
                for (j, o) in c.ops.iter_mut().enumerate() {
                    if let HOp::Tx { enumerate, faults, .. } = o {
                        *enumerate = false;
                        if j == i {
                            faults.at_calls.clear();
                            faults.at_calls.insert(k);
                        }
                    }
                }
                stats.inc("fault.F1_enumerated_index");
                out = run_twin(&c, &self.mode, stats, None);
                if !out.is_empty() {
                    for v in out.iter_mut() {
                        v.message = format!("[fault enumerated at op {i}, database call {k}] {}", v.message);
                    }
                    return out;
                }
            }
        }
        out
    }

    fn shrink(&self, case: &TwinCase) -> Vec<TwinCase> {
        let mut out = Vec::new();
        // make an enumerated fault explicit first (replay then needs no enumeration)
        for (i, o) in case.ops.iter().enumerate() {
            if let HOp::Tx { enumerate: true, .. } = o {
                for k in 0..48u64 {
                    let mut c = case.clone();
                    for (j, o2) in c.ops.iter_mut().enumerate() {
                        if let HOp::Tx { enumerate, faults, .. } = o2 {
                            *enumerate = false;
                            if j == i {
                                faults.at_calls.clear();
                                faults.at_calls.insert(k);
                            }
                        }
                    }
                    out.push(c);
                }
            }
        }
        for ops in shrink_vec(&case.ops) {
            if ops.is_empty() {
                continue;
            }
            let mut c = case.clone();
            c.ops = ops;
            out.push(c);
        }
        for (i, o) in case.ops.iter().enumerate() {
            if let HOp::Tx { tx, faults, .. } = o {
                if !faults.is_empty() {
                    let mut c = case.clone();
                    if let HOp::Tx { faults, .. } = &mut c.ops[i] {
                        *faults = FaultPlan::default();
                    }
                    out.push(c);
                }
                if !tx.access_list.is_empty() || tx.auth_list.is_some() || !tx.value.is_zero() {
                    let mut c = case.clone();
                    if let HOp::Tx { tx, .. } = &mut c.ops[i] {
                        tx.access_list.clear();
                        tx.auth_list = None;
                        tx.value = U256::ZERO;
                    }
                    out.push(c);
                }
                if tx.to.is_some() {
                    for j in 0..tx.data.len() {
                        if tx.data[j] != 0 {
                            let mut c = case.clone();
                            if let HOp::Tx { tx, .. } = &mut c.ops[i] {
                                let mut d = tx.data.to_vec();
                                d[j] = 0;
                                tx.data = d.into();
                            }
                            out.push(c);
                        }
                    }
                }
            }
        }
        for (a, acc) in case.world.disk.accounts.iter() {
            if acc.code.len() > 1 && !acc.code.starts_with(&[0xef]) {
                let mut c = case.clone();
                c.world.disk.accounts.get_mut(a).unwrap().code = vec![0x00].into();
                out.push(c);
            }
        }
        if case.world.cfg.stack != StackKind::Raw {
            let mut c = case.clone();
            c.world.cfg.stack = StackKind::Raw;
            out.push(c);
        }
        if case.world.cfg.lazy_code {
            let mut c = case.clone();
            c.world.cfg.lazy_code = false;
            out.push(c);
        }
        out
    }
}

fn outcome_diff(a: &TxOutcome, b: &TxOutcome) -> Option<String> {
    if a == b {
        return None;
    }
    match (a, b) {
        (TxOutcome::Ok(x), TxOutcome::Ok(y)) => {
            let what = if x.gas_used() != y.gas_used() {
                "gas_used"
            } else if x.logs() != y.logs() {
                "logs"
            } else if x.output() != y.output() {
                "output"
            } else {
                "result"
            };
            Some(format!("{what}: {x:?} vs {y:?}"))
        }
        (TxOutcome::Db(_), TxOutcome::Db(_)) => None,
        _ => Some(format!("{} vs {}", a.class(), b.class())),
    }
}

fn diff_field(msg: &str) -> String {
    msg.split(':').next().unwrap_or("").to_string()
}

/// The twin run. `calls_out`: if given, receives the number of bottom-level database calls
/// each op made on system A.
pub fn run_twin(case: &TwinCase, mode: &str, stats: &mut Stats, calls_out: Option<&mut Vec<u64>>) -> Vec<Violation> {
    // F8: the tracer twin's trace sink fails on schedule
    arm_trace_fault(if mode == "C28" { case.trace_fault } else { None });
    let out = run_twin_inner(case, mode, stats, calls_out);
    let (writes, faults) = trace_write_stats();
    arm_trace_fault(None);
    if writes > 0 {
        stats.add("steps.trace_sink_write_calls", writes);
    }
    if faults > 0 {
        stats.inc("fault.F8_trace_sink_failed");
    }
    out
}

fn run_twin_inner(case: &TwinCase, mode: &str, stats: &mut Stats, mut calls_out: Option<&mut Vec<u64>>) -> Vec<Violation> {
    let w = &case.world;
    let mut cfg_a = w.cfg.clone();
    let mut cfg_b = w.cfg.clone();
    match mode {
        "C28" => {
            cfg_a.insp = InspKind::None;
            cfg_b.insp = case.insp_b;
        }
        "C31" => {
            cfg_a.insp = InspKind::None;
            cfg_b.insp = InspKind::None;
        }
        _ => {
            cfg_a.insp = if case.bare_a { InspKind::None } else { InspKind::Monitor };
            cfg_b.insp = InspKind::Monitor;
            cfg_a.reward = false;
            cfg_b.reward = true;
        }
    }
    let mut block_a = w.block.clone();
    let mut block_b = w.block.clone();
    let mut a = Sys::new(&cfg_a, w.disk.clone(), &block_a);
    let mut b = Sys::new(&cfg_b, w.disk.clone(), &block_b);
    a.bottom.0.borrow_mut().log_enabled = mode == "C28";
    b.bottom.0.borrow_mut().log_enabled = mode == "C28";
    let (mut noop_a, mut noop_b) = (0u32, 0u32);
    let mut out = Vec::new();
    let mut fp = Hasher64::new();
    fp.s(&w.cfg.spec).s(mode);
    let mut executed = 0;
    let mut coinbase_party = false;
    let mut reward_sum = U512::ZERO;
    let mut last_reconfig = "none".to_string();
    let mut universe = w.universe.clone();
    universe.extend(w.disk.accounts.keys().cloned());
    universe.sort();
    universe.dedup();
    for (i, op) in case.ops.iter().enumerate() {
        let calls_before = a.bottom.calls();
        match op {
            HOp::Tx { tx, via, faults, .. } => {
                if mode == "C31" {
                    // system B: a brand-new Evm around the same database for every op
                    let evm = b.evm.take().unwrap();
                    let (db, _env) = evm.into_db_and_env_with_handler_cfg();
                    b.evm = Some(Sys::build_evm(&b.cfg, db, &block_b));
                    stats.inc("probe.fresh_instance_built");
                }
                let spec = a.evm().spec_id();
                let pfault = match op {
                    HOp::Tx { pfault, .. } => *pfault,
                    _ => None,
                };
                let fired0 = precompile_faults_fired();
                arm_precompile_fault(pfault);
                let ra = run_tx(&mut a, tx, *via, faults, block_a.coinbase);
                arm_precompile_fault(pfault);
                let rb = run_tx(&mut b, tx, *via, faults, block_b.coinbase);
                arm_precompile_fault(None);
                if precompile_faults_fired() > fired0 {
                    stats.inc("fault.F5_fatal_precompile_fired");
                }
                stats.inc(&format!("outcome.{}", ra.outcome.class().split(':').next().unwrap_or("")));
                fp.s(&ra.outcome.class());
                if ra.outcome.is_db_err() || ra.second.as_ref().map(|s| s.is_db_err()).unwrap_or(false) {
                    stats.inc("fault.F1_db_error_fired");
                }
                let mut evaluated = true;
                if mode == "C28" {
                    // same call-index schedule means the same thing only if both systems
                    // issue the same database calls (diagnostic otherwise)
                    let la = a.bottom.take_log();
                    let lb = b.bottom.take_log();
                    if la != lb {
                        stats.inc("diag.db_call_sequences_differ");
                        if !faults.is_empty() {
                            evaluated = false;
                            stats.inc("diag.faulted_op_not_evaluated");
                        }
                    }
                }
                if mode == "C22" {
                    // coinbase as a party of the transaction: the twins may legitimately diverge
                    let cb = block_a.coinbase;
                    let party_a = a.monitor().map(|m| m.ether_touched.contains(&cb) || m.addresses_called.contains(&cb) || m.balance_observed.contains(&cb)).unwrap_or(false);
                    let party_b = b.monitor().map(|m| m.ether_touched.contains(&cb) || m.addresses_called.contains(&cb) || m.balance_observed.contains(&cb)).unwrap_or(false);
                    if party_a || party_b || tx.caller == cb || tx.to == Some(cb) {
                        coinbase_party = true;
                        stats.inc("probe.coinbase_is_party");
                    }
                    for s in [&mut a, &mut b] {
                        if let Some(m) = s.monitor() {
                            m.violations.clear();
                            m.counters.clear();
                        }
                    }
                }
                if evaluated && !coinbase_party {
                    let sig_extra = if mode == "C22" { last_reconfig.clone() } else { format!("{via:?}") };
                    if let Some(d) = outcome_diff(&ra.outcome, &rb.outcome) {
                        out.push(Violation::new(mode, &format!("{mode}.twin-result"), &[("field", diff_field(&d)), ("ctx", sig_extra.clone())], format!("op {i}: results differ: {d}")));
                    }
                    match (&ra.second, &rb.second) {
                        (Some(x), Some(y)) => {
                            if let Some(d) = outcome_diff(x, y) {
                                out.push(Violation::new(mode, &format!("{mode}.twin-result"), &[("field", diff_field(&d)), ("ctx", sig_extra.clone())], format!("op {i} (transact_preverified): results differ: {d}")));
                            }
                        }
                        (None, None) => {}
                        _ => out.push(Violation::new(mode, &format!("{mode}.twin-result"), &[("field", "shape".into()), ("ctx", sig_extra.clone())], format!("op {i}: one system ran transact_preverified, the other did not"))),
                    }
                    if mode != "C22" {
                        if let (Some(x), Some(y)) = (&ra.digest, &rb.digest) {
                            if let Some(d) = digest_diff(x, y) {
                                out.push(Violation::new(mode, &format!("{mode}.twin-state"), &[("ctx", sig_extra.clone())], format!("op {i}: returned states differ: {d}")));
                            }
                        }
                    }
                }
                if let TxOutcome::Ok(r) = ra.second.as_ref().unwrap_or(&ra.outcome) {
                    executed += 1;
                    if mode == "C22" && !matches!(via, Via::TransactOnly) {
                        let eff = effective_gas_price(spec, tx, &block_a);
                        let price = if spec.is_enabled_in(SpecId::LONDON) { eff.saturating_sub(block_a.basefee) } else { eff };
                        reward_sum += to_u512(price) * U512::from(r.gas_used());
                    }
                    if matches!(r, ExecutionResult::Halt { .. }) {
                        stats.inc("probe.halted_tx");
                    }
                }
                if mode == "C22" && last_reconfig != "none" {
                    stats.inc(&format!("probe.tx_after_{last_reconfig}"));
                }
            }
            other => {
                apply_reconfig(&mut a, other, &mut block_a, &mut noop_a);
                if mode == "C31" {
                    // B is rebuilt per op anyway; only record the new spec / block
                    match other {
                        HOp::SetSpec { spec, .. } => b.cfg.spec = spec.clone(),
                        HOp::AdvanceBlock { by } => {
                            block_b.number += by;
                            block_b.timestamp += 12 * by;
                        }
                        _ => {}
                    }
                } else {
                    apply_reconfig(&mut b, other, &mut block_b, &mut noop_b);
                }
                let name = match other {
                    HOp::SetSpec { how: 0, .. } => "modify_spec_id",
                    HOp::SetSpec { .. } => "with_spec_id",
                    HOp::AppendNoopRegister => "append_handler_register",
                    HOp::PopRegister => "pop_handle_register",
                    HOp::Rebuild => "modify_build",
                    HOp::AdvanceBlock { .. } => "advance_block",
                    HOp::Tx { .. } => "",
                };
                if !matches!(other, HOp::AdvanceBlock { .. }) {
                    last_reconfig = name.to_string();
                }
                fp.s(name);
                stats.inc(&format!("ops.{name}"));
            }
        }
        if let Some(c) = calls_out.as_deref_mut() {
            c.push(a.bottom.calls() - calls_before);
        }
        if out.len() >= 3 {
            break;
        }
    }
    // final committed state through both stacks
    if out.is_empty() {
        let sc = w.cfg.spec_id().is_enabled_in(SpecId::SPURIOUS_DRAGON);
        a.bottom.disarm();
        b.bottom.disarm();
        if let (Ok(sa), Ok(sb)) = (a.logical_state(&universe, &w.slots, sc), b.logical_state(&universe, &w.slots, sc)) {
            if mode == "C22" {
                if !coinbase_party {
                    let cb = block_a.coinbase;
                    let before = to_u512(w.disk.balance(&cb));
                    let a_cb = to_u512(sa.balance(&cb));
                    let b_cb = to_u512(sb.balance(&cb));
                    stats.inc("probe.reward_off_history_evaluated");
                    if a_cb != before {
                        out.push(Violation::new("C22", "C22.no-reward", &[("after", last_reconfig.clone())], format!("rewards disabled, yet the beneficiary {cb} went from {before} to {a_cb} (last reconfiguration: {last_reconfig})")));
                    } else if b_cb != before + reward_sum && b_cb < (U512::from(1u64) << 256) - U512::from(1u64) {
                        out.push(Violation::new("C22", "C22.reward-on-twin", &[], format!("reward-on twin: beneficiary {before} -> {b_cb}, expected +{reward_sum}")));
                    }
                    let mut sa2 = sa.clone();
                    let mut sb2 = sb.clone();
                    sa2.accounts.remove(&cb);
                    sb2.accounts.remove(&cb);
                    if sa2 != sb2 {
                        let who = sa2.accounts.keys().chain(sb2.accounts.keys()).find(|k| sa2.accounts.get(*k) != sb2.accounts.get(*k)).cloned();
                        out.push(Violation::new("C22", "C22.twin-state", &[("after", last_reconfig.clone())], format!("accounts other than the beneficiary differ between reward-off and reward-on: {who:?}")));
                    }
                }
            } else if sa != sb {
                let who = sa.accounts.keys().chain(sb.accounts.keys()).find(|k| sa.accounts.get(*k) != sb.accounts.get(*k)).cloned();
                out.push(Violation::new(mode, &format!("{mode}.final-state"), &[], format!("committed states differ at {who:?}: {:?} vs {:?}", who.and_then(|k| sa.accounts.get(&k).cloned()), who.and_then(|k| sb.accounts.get(&k).cloned()))));
            }
        }
    }
    if executed > 0 {
        stats.fingerprint(fp.finish());
    }
    if stats.samples.is_empty() {
        stats.samples.push(json!({"mode": mode, "spec": w.cfg.spec, "stack": format!("{:?}", w.cfg.stack), "insp_b": format!("{:?}", case.insp_b),
            "ops": case.ops.iter().map(|o| match o { HOp::Tx { tx, via, faults, enumerate, .. } => format!("tx to {:?} gas {} via {via:?} faults {:?} enumerate {enumerate}", tx.to, tx.gas_limit, faults.at_calls), other => format!("{other:?}") }).collect::<Vec<_>>() }));
    }
    let mut seen = std::collections::BTreeSet::new();
    out.retain(|v| seen.insert(v.class_key()));
    out
}

#[allow(dead_code)]
fn _keep(_: fn(&mut revm::handler::register::EvmHandler<'_, AnyInsp, AnyDb>)) {
    let _ = inspector_handle_register::<AnyDb, AnyInsp>;
    let _: Option<Evm<'static, AnyInsp, AnyDb>> = None;
}
