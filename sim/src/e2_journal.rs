//! E2 `journalsim`: `JournaledState` driven directly through its public API over a
//! fault-injecting database, checked op by op against a snapshot-stack reference
//! (DESIGN §4 E2, §5 C06, C34 API level).
use crate::core::*;
use crate::disk::*;
use revm::primitives::{
    Address, Bytecode, Bytes, HashSet, Log, LogData, SpecId, B256, KECCAK_EMPTY, U256,
};
use revm::{JournalCheckpoint, JournaledState};
use serde::{Deserialize, Serialize};
use serde_json::json;
use std::collections::{BTreeMap, BTreeSet};

#[derive(Clone, Debug, Serialize, Deserialize, PartialEq)]
pub enum JOp {
    Load(Address),
    LoadCode(Address),
    LoadDelegated(Address),
    Transfer(Address, Address, U256),
    IncNonce(Address),
    SetCode(Address, Bytes),
    Sload(Address, U256),
    Sstore(Address, U256, U256),
    Tload(Address, U256),
    Tstore(Address, U256, U256),
    Log(Address, u8),
    Touch(Address),
    Selfdestruct(Address, Address),
    /// create_account_checkpoint(caller, address, balance): opens a checkpoint on success
    Create(Address, Address, U256),
    Checkpoint,
    Commit,
    Revert,
    /// arm a fault on the n-th database call from now
    Fault(u64),
}

#[derive(Clone, Debug, Serialize, Deserialize)]
pub struct JCase {
    pub spec: String,
    pub disk: SimDisk,
    pub lazy_code: bool,
    pub empty_as_none: bool,
    /// tx-level pre-warmed addresses (like precompiles / coinbase)
    pub preloaded: Vec<Address>,
    /// access-list style initial loads (address, slots), performed before any op
    pub initial: Vec<(Address, Vec<U256>)>,
    pub ops: Vec<JOp>,
}

pub struct JournalSim {
    /// "C06" or "C34": only biases nothing here, both oracles always run
    pub focus: String,
}

pub fn spec_from_str(s: &str) -> SpecId {
    SpecId::from(s)
}
pub fn spec_name(s: SpecId) -> String {
    let n: &'static str = s.into();
    n.to_string()
}

const SPECS: &[SpecId] = &[
    SpecId::FRONTIER,
    SpecId::HOMESTEAD,
    SpecId::TANGERINE,
    SpecId::SPURIOUS_DRAGON,
    SpecId::BYZANTIUM,
    SpecId::ISTANBUL,
    SpecId::BERLIN,
    SpecId::LONDON,
    SpecId::SHANGHAI,
    SpecId::CANCUN,
    SpecId::PRAGUE,
];

pub fn biased_u256(rng: &mut Rng) -> U256 {
    match rng.below(10) {
        0 => U256::ZERO,
        1 => U256::from(1),
        2 | 3 | 4 => U256::from(rng.below(1000)),
        5 => U256::from(1u64) << 255,
        6 => U256::MAX - U256::from(rng.below(100)),
        7 => U256::MAX,
        8 => U256::from(rng.next_u64()),
        _ => U256::from_be_bytes::<32>(rng.bytes(32).try_into().unwrap()),
    }
}

fn addr_from(seed: u64, i: u64) -> Address {
    let mut s = seed ^ (i.wrapping_mul(0x9E37_79B9_7F4A_7C15));
    let a = splitmix64(&mut s);
    let b = splitmix64(&mut s);
    let c = splitmix64(&mut s);
    let mut v = [0u8; 20];
    v[..8].copy_from_slice(&a.to_be_bytes());
    v[8..16].copy_from_slice(&b.to_be_bytes());
    v[16..].copy_from_slice(&c.to_be_bytes()[..4]);
    Address::from(v)
}

impl Engine for JournalSim {
    type Case = JCase;
    fn label(&self) -> String {
        format!("journalsim/{}", self.focus)
    }

    fn generate(&self, rng: &mut Rng) -> JCase {
        let spec = *rng.pick(SPECS);
        let salt = rng.next_u64();
        let n_addr = rng.range(2, 5);
        let mut addrs: Vec<Address> = (0..n_addr).map(|i| addr_from(salt, i)).collect();
        // RIPEMD precompile (EIP-161 touch exception) and ECRECOVER in some universes
        if rng.chance(1, 4) {
            addrs.push(Address::with_last_byte(3));
        }
        let slots: Vec<U256> = {
            let n = rng.range(1, 3);
            (0..n).map(|i| if rng.chance(1, 3) { biased_u256(rng) } else { U256::from(i) }).collect()
        };
        let mut disk = SimDisk { hash_salt: salt, ..Default::default() };
        for a in &addrs {
            if rng.chance(3, 4) {
                let mut d = DiskAccount {
                    balance: biased_u256(rng),
                    nonce: match rng.below(6) {
                        0 => u64::MAX,
                        1 => u64::MAX - 1,
                        2 | 3 => 0,
                        _ => rng.below(5),
                    },
                    ..Default::default()
                };
                if rng.chance(1, 3) {
                    d.code = Bytes::from(vec![0x60, 0x00, 0x60, 0x00, 0xf3]);
                }
                if rng.chance(1, 2) {
                    for s in &slots {
                        if rng.bool() {
                            d.storage.insert(*s, U256::from(rng.range(1, 9)));
                        }
                    }
                }
                disk.accounts.insert(*a, d);
            }
        }
        let mut preloaded = vec![];
        if rng.chance(1, 3) {
            preloaded.push(*rng.pick(&addrs));
        }
        let mut initial = vec![];
        if rng.chance(1, 3) {
            let a = *rng.pick(&addrs);
            let ks: Vec<U256> = slots.iter().filter(|_| rng.bool()).cloned().collect();
            initial.push((a, ks));
        }
        let n_ops = rng.range(5, 60);
        let mut ops = Vec::with_capacity(n_ops as usize);
        let mut depth = 0i32;
        let fault_run = rng.chance(1, 4);
        for _ in 0..n_ops {
            let a = *rng.pick(&addrs);
            let b = *rng.pick(&addrs);
            let k = *rng.pick(&slots);
            let w = rng.weighted(&[8, 4, 2, 10, 5, 2, 6, 10, 3, 6, 4, 3, 6, 5, 9, 4, 7, 2]);
            let op = match w {
                0 => JOp::Load(a),
                1 => JOp::LoadCode(a),
                2 => JOp::LoadDelegated(a),
                3 => JOp::Transfer(a, b, biased_u256(rng)),
                4 => JOp::IncNonce(a),
                5 => {
                    let n = rng.range(1, 4) as usize;
                    JOp::SetCode(a, Bytes::from(rng.bytes(n)))
                }
                6 => JOp::Sload(a, k),
                7 => JOp::Sstore(a, k, U256::from(rng.below(4))),
                8 => JOp::Tload(a, k),
                9 => JOp::Tstore(a, k, U256::from(rng.below(3))),
                10 => JOp::Log(a, rng.below(4) as u8),
                11 => JOp::Touch(a),
                12 => JOp::Selfdestruct(a, if rng.chance(1, 4) { a } else { b }),
                13 => JOp::Create(a, b, if rng.bool() { U256::ZERO } else { biased_u256(rng) }),
                14 => {
                    if depth < 6 {
                        depth += 1;
                        JOp::Checkpoint
                    } else {
                        JOp::Load(a)
                    }
                }
                15 => {
                    if depth > 0 {
                        depth -= 1;
                        JOp::Commit
                    } else {
                        JOp::Sload(a, k)
                    }
                }
                16 => {
                    if depth > 0 {
                        depth -= 1;
                        JOp::Revert
                    } else {
                        JOp::Sstore(a, k, U256::from(rng.below(4)))
                    }
                }
                _ => {
                    if fault_run {
                        JOp::Fault(rng.below(3))
                    } else {
                        JOp::Touch(a)
                    }
                }
            };
            ops.push(op);
        }
        // close the remaining checkpoints with a random mix
        for _ in 0..8 {
            ops.push(if rng.bool() { JOp::Revert } else { JOp::Commit });
        }
        JCase {
            spec: spec_name(spec),
            disk,
            lazy_code: rng.chance(1, 3),
            empty_as_none: rng.bool(),
            preloaded,
            initial,
            ops,
        }
    }

    fn execute(&self, case: &JCase, stats: &mut Stats) -> Vec<Violation> {
        execute_case(case, stats)
    }

    fn shrink(&self, case: &JCase) -> Vec<JCase> {
        let mut out = Vec::new();
        for ops in shrink_vec(&case.ops) {
            let mut c = case.clone();
            c.ops = ops;
            out.push(c);
        }
        if !case.initial.is_empty() {
            let mut c = case.clone();
            c.initial.clear();
            out.push(c);
        }
        if !case.preloaded.is_empty() {
            let mut c = case.clone();
            c.preloaded.clear();
            out.push(c);
        }
        // drop disk accounts that no op mentions
        for a in case.disk.accounts.keys() {
            let mut c = case.clone();
            c.disk.accounts.remove(a);
            out.push(c);
        }
        if case.lazy_code {
            let mut c = case.clone();
            c.lazy_code = false;
            out.push(c);
        }
        out
    }
}

// ---------------------------------------------------------------- projection

#[derive(Clone, Debug, PartialEq, Eq)]
struct AccView {
    balance: U256,
    nonce: u64,
    code_hash: B256,
    touched: bool,
    created: bool,
    destroyed: bool,
    warm: bool,
}

#[derive(Clone, Debug, PartialEq, Eq)]
struct Projection {
    accounts: BTreeMap<Address, AccView>,
    slots: BTreeMap<(Address, U256), (U256, bool)>,
    transient: BTreeMap<(Address, U256), U256>,
    logs: Vec<Log>,
    depth: usize,
}

struct Universe {
    addrs: BTreeSet<Address>,
    slots: BTreeSet<U256>,
}

/// Observable projection. An account/slot absent from `state` is identified with what a
/// later load would produce: the database's value, cold (or pre-warmed), untouched.
fn project(js: &JournaledState, disk: &SimDisk, u: &Universe, post_sd: bool) -> Projection {
    let mut accounts = BTreeMap::new();
    let mut slots = BTreeMap::new();
    for a in &u.addrs {
        let view = match js.state.get(a) {
            Some(acc) => AccView {
                balance: acc.info.balance,
                nonce: acc.info.nonce,
                code_hash: acc.info.code_hash,
                // EIP-161 exception: the touch of RIPEMD (0x03) survives reverts after
                // Spurious Dragon by specification; excluded from the comparison
                touched: if post_sd && *a == Address::with_last_byte(3) { false } else { acc.is_touched() },
                created: acc.is_created(),
                destroyed: acc.is_selfdestructed(),
                warm: !acc.status.contains(revm::primitives::AccountStatus::Cold),
            },
            None => {
                let d = disk.accounts.get(a);
                AccView {
                    balance: d.map(|d| d.balance).unwrap_or_default(),
                    nonce: d.map(|d| d.nonce).unwrap_or_default(),
                    code_hash: d.map(|d| d.code_hash()).unwrap_or(KECCAK_EMPTY),
                    touched: false,
                    created: false,
                    destroyed: false,
                    warm: js.warm_preloaded_addresses.contains(a),
                }
            }
        };
        for k in &u.slots {
            let acc = js.state.get(a);
            let v = match acc.and_then(|acc| acc.storage.get(k)) {
                Some(s) => (s.present_value, !s.is_cold),
                None => {
                    let created = acc.map(|x| x.is_created()).unwrap_or(false);
                    (if created { U256::ZERO } else { disk.storage(a, k) }, false)
                }
            };
            slots.insert((*a, *k), v);
        }
        accounts.insert(*a, view);
    }
    let transient = js
        .transient_storage
        .iter()
        .filter(|(_, v)| !v.is_zero())
        .map(|(k, v)| (*k, *v))
        .collect();
    Projection { accounts, slots, transient, logs: js.logs.clone(), depth: js.depth }
}

struct Diff {
    field: String,
    addr: Option<Address>,
    slot: Option<U256>,
    msg: String,
}

fn diff(a: &Projection, b: &Projection) -> Option<Diff> {
    diff_inner(a, b).map(|(field, addr, slot, msg)| Diff { field, addr, slot, msg })
}

fn diff_inner(a: &Projection, b: &Projection) -> Option<(String, Option<Address>, Option<U256>, String)> {
    for (k, va) in &a.accounts {
        let vb = &b.accounts[k];
        if va != vb {
            let field = if va.balance != vb.balance {
                "balance"
            } else if va.nonce != vb.nonce {
                "nonce"
            } else if va.code_hash != vb.code_hash {
                "code"
            } else if va.touched != vb.touched {
                "touched"
            } else if va.created != vb.created {
                "created"
            } else if va.destroyed != vb.destroyed {
                "destroyed"
            } else {
                "account-warm"
            };
            return Some((field.to_string(), Some(*k), None, format!("{k}: expected {va:?}, got {vb:?}")));
        }
    }
    for (k, va) in &a.slots {
        let vb = &b.slots[k];
        if va != vb {
            let field = if va.0 != vb.0 { "storage" } else { "slot-warm" };
            return Some((field.to_string(), Some(k.0), Some(k.1), format!("slot {k:?}: expected {va:?}, got {vb:?}")));
        }
    }
    if a.transient != b.transient {
        return Some(("transient".into(), None, None, format!("expected {:?}, got {:?}", a.transient, b.transient)));
    }
    if a.logs != b.logs {
        return Some(("logs".into(), None, None, format!("expected {} logs, got {}", a.logs.len(), b.logs.len())));
    }
    if a.depth != b.depth {
        return Some(("depth".into(), None, None, format!("expected depth {}, got {}", a.depth, b.depth)));
    }
    None
}

// ---------------------------------------------------------------- access model (C34, API level)

#[derive(Clone, Default)]
struct AccessModel {
    addrs: BTreeSet<Address>,
    slots: BTreeSet<(Address, U256)>,
}

fn op_name(op: &JOp) -> &'static str {
    match op {
        JOp::Load(_) => "load_account",
        JOp::LoadCode(_) => "load_code",
        JOp::LoadDelegated(_) => "load_account_delegated",
        JOp::Transfer(..) => "transfer",
        JOp::IncNonce(_) => "inc_nonce",
        JOp::SetCode(..) => "set_code",
        JOp::Sload(..) => "sload",
        JOp::Sstore(..) => "sstore",
        JOp::Tload(..) => "tload",
        JOp::Tstore(..) => "tstore",
        JOp::Log(..) => "log",
        JOp::Touch(_) => "touch",
        JOp::Selfdestruct(..) => "selfdestruct",
        JOp::Create(..) => "create_account_checkpoint",
        JOp::Checkpoint => "checkpoint",
        JOp::Commit => "checkpoint_commit",
        JOp::Revert => "checkpoint_revert",
        JOp::Fault(_) => "arm_fault",
    }
}

pub fn execute_case(case: &JCase, stats: &mut Stats) -> Vec<Violation> {
    let spec = spec_from_str(&case.spec);
    let post_sd = spec.is_enabled_in(SpecId::SPURIOUS_DRAGON);
    let mut db = FaultyDb::new(case.disk.clone());
    {
        let mut i = db.0.borrow_mut();
        i.lazy_code = case.lazy_code;
        i.empty_as_none = case.empty_as_none;
        i.state_clear = post_sd;
    }
    let disk = case.disk.clone();
    let mut u = Universe { addrs: BTreeSet::new(), slots: BTreeSet::new() };
    for a in disk.accounts.keys() {
        u.addrs.insert(*a);
    }
    for op in &case.ops {
        match op {
            JOp::Load(a) | JOp::LoadCode(a) | JOp::LoadDelegated(a) | JOp::IncNonce(a) | JOp::Touch(a)
            | JOp::SetCode(a, _) | JOp::Log(a, _) => {
                u.addrs.insert(*a);
            }
            JOp::Transfer(a, b, _) | JOp::Selfdestruct(a, b) | JOp::Create(a, b, _) => {
                u.addrs.insert(*a);
                u.addrs.insert(*b);
            }
            JOp::Sload(a, k) | JOp::Sstore(a, k, _) | JOp::Tload(a, k) | JOp::Tstore(a, k, _) => {
                u.addrs.insert(*a);
                u.slots.insert(*k);
            }
            _ => {}
        }
    }
    for (a, ks) in &case.initial {
        u.addrs.insert(*a);
        u.slots.extend(ks.iter().cloned());
    }
    for d in disk.accounts.values() {
        u.slots.extend(d.storage.keys().cloned());
    }

    let mut preloaded = HashSet::default();
    preloaded.extend(case.preloaded.iter().cloned());
    let mut js = JournaledState::new(spec, preloaded);
    let mut model = AccessModel::default();
    model.addrs.extend(case.preloaded.iter().cloned());
    for (a, ks) in &case.initial {
        if js.initial_account_load(*a, ks.iter().cloned(), &mut db).is_err() {
            return vec![];
        }
        model.addrs.insert(*a);
        for k in ks {
            model.slots.insert((*a, *k));
        }
    }
    let tx_level = model.clone();

    // snapshot stack: (projection at checkpoint, access model at checkpoint, handle)
    let mut stack: Vec<(Projection, AccessModel, JournalCheckpoint)> = Vec::new();
    let mut out: Vec<Violation> = Vec::new();
    let mut fp = Hasher64::new();
    fp.s(&case.spec);
    let mut nontrivial = false;
    let mut failed_any = false;
    // did a transfer report OverflowPayment earlier in this history: part of the signature
    // of balance mismatches (defect D1)
    let mut overflow_payment_seen = false;

    macro_rules! ensure_loaded {
        ($a:expr) => {{
            // the EVM always loads an account before operating on it; do the same so
            // that API preconditions hold (and keep the access model in step)
            let need = match js.state.get(&$a) {
                None => true,
                Some(acc) => acc.status.contains(revm::primitives::AccountStatus::Cold),
            };
            if need {
                match js.load_account($a, &mut db) {
                    Ok(l) => {
                        check_cold(&mut out, &model, $a, l.is_cold, "ensure_loaded");
                        model.addrs.insert($a);
                        true
                    }
                    Err(_) => {
                        stats.inc("fault.fired_in_op");
                        failed_any = true;
                        false
                    }
                }
            } else {
                true
            }
        }};
    }

    fn check_cold(out: &mut Vec<Violation>, model: &AccessModel, a: Address, is_cold: bool, at: &str) {
        let expect_cold = !model.addrs.contains(&a);
        if is_cold != expect_cold && out.iter().all(|v| v.oracle != "C34.api-account-cold-flag") {
            out.push(Violation::new(
                "C34",
                "C34.api-account-cold-flag",
                &[("at", at.to_string()), ("expected_cold", expect_cold.to_string())],
                format!("load of {a} reported is_cold={is_cold}, access model says cold={expect_cold} ({at})"),
            ));
        }
    }
    fn check_slot_cold(out: &mut Vec<Violation>, model: &AccessModel, a: Address, k: U256, is_cold: bool, at: &str) {
        let expect_cold = !model.slots.contains(&(a, k));
        if is_cold != expect_cold && out.iter().all(|v| v.oracle != "C34.api-slot-cold-flag") {
            out.push(Violation::new(
                "C34",
                "C34.api-slot-cold-flag",
                &[("at", at.to_string()), ("expected_cold", expect_cold.to_string())],
                format!("access of slot {k} of {a} reported is_cold={is_cold}, access model says cold={expect_cold} ({at})"),
            ));
        }
    }

    // SLOAD/SSTORE/TSTORE/LOG/SELFDESTRUCT are executed by a contract on itself: in the
    // EVM that account has code or is being created in this transaction
    macro_rules! can_execute {
        ($a:expr) => {{
            let ok = js.state.get(&$a).map(|x| x.info.code_hash != KECCAK_EMPTY || x.is_created()).unwrap_or(false);
            if !ok {
                stats.inc("ops.skipped_precondition");
            }
            ok
        }};
    }
    for (idx, op) in case.ops.iter().enumerate() {
        fp.s(op_name(op));
        stats.inc(&format!("ops.{}", op_name(op)));
        let calls_before = db.fired();
        match op {
            JOp::Fault(n) => {
                let mut plan = FaultPlan::default();
                plan.at_calls.insert(*n);
                db.arm(plan);
                stats.inc("fault.armed");
            }
            JOp::Load(a) => match js.load_account(*a, &mut db) {
                Ok(l) => {
                    check_cold(&mut out, &model, *a, l.is_cold, "load_account");
                    model.addrs.insert(*a);
                }
                Err(_) => failed_any = true,
            },
            JOp::LoadCode(a) => match js.load_code(*a, &mut db) {
                Ok(l) => {
                    check_cold(&mut out, &model, *a, l.is_cold, "load_code");
                    model.addrs.insert(*a);
                }
                Err(_) => {
                    // the account load itself may have succeeded before code_by_hash failed
                    if js.state.get(a).map(|x| !x.status.contains(revm::primitives::AccountStatus::Cold)).unwrap_or(false) {
                        model.addrs.insert(*a);
                    }
                    failed_any = true
                }
            },
            JOp::LoadDelegated(a) => match js.load_account_delegated(*a, &mut db) {
                Ok(l) => {
                    check_cold(&mut out, &model, *a, l.load.is_cold, "load_account_delegated");
                    model.addrs.insert(*a);
                }
                Err(_) => {
                    if js.state.get(a).map(|x| !x.status.contains(revm::primitives::AccountStatus::Cold)).unwrap_or(false) {
                        model.addrs.insert(*a);
                    }
                    failed_any = true
                }
            },
            JOp::Transfer(a, b, v) => {
                let r = js.transfer(a, b, *v, &mut db);
                // transfer loads both accounts itself
                for x in [a, b] {
                    if js.state.get(x).map(|acc| !acc.status.contains(revm::primitives::AccountStatus::Cold)).unwrap_or(false) {
                        model.addrs.insert(*x);
                    }
                }
                match r {
                    Ok(None) => {
                        nontrivial = true;
                    }
                    Ok(Some(res)) => {
                        if res == revm::interpreter::InstructionResult::OverflowPayment {
                            overflow_payment_seen = true;
                        }
                        stats.inc(&format!("probe.transfer_{res:?}"));
                        fp.s(&format!("{res:?}"));
                    }
                    Err(_) => failed_any = true,
                }
            }
            JOp::IncNonce(a) => {
                if ensure_loaded!(*a) {
                    if js.inc_nonce(*a).is_none() {
                        stats.inc("probe.nonce_overflow");
                    }
                }
            }
            JOp::SetCode(a, code) => {
                if ensure_loaded!(*a) {
                    // as in the EVM: code is only ever set on an account without code
                    if js.state[a].info.code_hash == KECCAK_EMPTY {
                        js.set_code(*a, Bytecode::new_legacy(code.clone()));
                        nontrivial = true;
                    } else {
                        stats.inc("ops.skipped_precondition");
                    }
                }
            }
            JOp::Sload(a, k) => {
                if ensure_loaded!(*a) && can_execute!(*a) {
                    match js.sload(*a, *k, &mut db) {
                        Ok(l) => {
                            check_slot_cold(&mut out, &model, *a, *k, l.is_cold, "sload");
                            model.slots.insert((*a, *k));
                            let created = js.state[a].is_created();
                            let _ = created;
                        }
                        Err(_) => failed_any = true,
                    }
                }
            }
            JOp::Sstore(a, k, v) => {
                if ensure_loaded!(*a) && can_execute!(*a) {
                    match js.sstore(*a, *k, *v, &mut db) {
                        Ok(l) => {
                            check_slot_cold(&mut out, &model, *a, *k, l.is_cold, "sstore");
                            model.slots.insert((*a, *k));
                            nontrivial = true;
                        }
                        Err(_) => failed_any = true,
                    }
                }
            }
            JOp::Tload(a, k) => {
                let _ = js.tload(*a, *k);
            }
            JOp::Tstore(a, k, v) => {
                js.tstore(*a, *k, *v);
                nontrivial = true;
            }
            JOp::Log(a, n) => {
                let topics = (0..*n).map(|i| B256::with_last_byte(i)).collect();
                js.log(Log { address: *a, data: LogData::new_unchecked(topics, Bytes::from(vec![idx as u8])) });
            }
            JOp::Touch(a) => {
                js.touch(a);
            }
            JOp::Selfdestruct(a, t) => {
                if ensure_loaded!(*a) && can_execute!(*a) {
                    match js.selfdestruct(*a, *t, &mut db) {
                        Ok(l) => {
                            check_cold(&mut out, &model, *t, l.is_cold, "selfdestruct");
                            model.addrs.insert(*t);
                            nontrivial = true;
                            if l.data.previously_destroyed {
                                stats.inc("probe.double_selfdestruct");
                            }
                            let cancun = spec.is_enabled_in(SpecId::CANCUN);
                            let created = js.state[a].is_created();
                            stats.inc(match (cancun, created, a == t) {
                                (false, _, true) => "probe.sd_pre_cancun_self",
                                (false, _, false) => "probe.sd_pre_cancun_other",
                                (true, true, _) => "probe.sd_6780_created",
                                (true, false, false) => "probe.sd_6780_transfer_only",
                                (true, false, true) => "probe.sd_6780_noop",
                            });
                        }
                        Err(_) => failed_any = true,
                    }
                }
            }
            JOp::Create(caller, address, value) => {
                let fresh_target = js.state.get(address).map(|x| !x.is_created() && !x.is_selfdestructed()).unwrap_or(true);
                if caller != address && fresh_target && ensure_loaded!(*caller) {
                    // make_create_frame: balance check, then load of the created address
                    let bal = js.state[caller].info.balance;
                    if bal >= *value {
                        match js.load_account(*address, &mut db) {
                            Ok(l) => {
                                check_cold(&mut out, &model, *address, l.is_cold, "create-load");
                                model.addrs.insert(*address);
                                let has_storage = disk.has_storage(address);
                                let before = project(&js, &disk, &u, post_sd);
                                let model_before = model.clone();
                                match js.create_account_checkpoint(*caller, *address, has_storage, *value, spec) {
                                    Ok(cp) => {
                                        stats.inc("probe.create_ok");
                                        nontrivial = true;
                                        stack.push((before, model_before, cp));
                                    }
                                    Err(e) => {
                                        stats.inc(&format!("probe.create_{e:?}"));
                                        fp.s(&format!("{e:?}"));
                                        // the function reverted its own checkpoint: state must be
                                        // exactly what it was before the call
                                        let after = project(&js, &disk, &u, post_sd);
                                        if let Some(d) = diff(&before, &after) {
                                            out.push(Violation::new(
                                                "C06",
                                                "C06.revert-restores",
                                                &[("field", d.field), ("via", format!("create_account_checkpoint:{e:?}"))],
                                                format!("op {idx} failed create did not restore: {}", d.msg),
                                            ));
                                        }
                                    }
                                }
                            }
                            Err(_) => failed_any = true,
                        }
                    } else {
                        stats.inc("ops.skipped_precondition");
                    }
                } else {
                    stats.inc("ops.skipped_precondition");
                }
            }
            JOp::Checkpoint => {
                if stack.len() < 8 {
                    let before = project(&js, &disk, &u, post_sd);
                    let cp = js.checkpoint();
                    stack.push((before, model.clone(), cp));
                }
            }
            JOp::Commit => {
                if let Some((snap, _m, _cp)) = stack.pop() {
                    let before = project(&js, &disk, &u, post_sd);
                    js.checkpoint_commit();
                    let after = project(&js, &disk, &u, post_sd);
                    let mut expect = before.clone();
                    expect.depth -= 1;
                    if let Some(d) = diff(&expect, &after) {
                        out.push(Violation::new(
                            "C06",
                            "C06.commit-keeps",
                            &[("field", d.field)],
                            format!("op {idx} checkpoint_commit changed state: {}", d.msg),
                        ));
                    }
                    let _ = snap;
                    stats.inc("probe.commit");
                }
            }
            JOp::Revert => {
                if let Some((snap, m, cp)) = stack.pop() {
                    // which journal entry kinds are about to be reverted (reach probe)
                    for j in js.journal.iter().skip(1) {
                        for e in j {
                            let name = format!("{e:?}");
                            let kind = name.split([' ', '{']).next().unwrap_or("");
                            stats.inc(&format!("reverted_entry.{kind}"));
                        }
                    }
                    js.checkpoint_revert(cp);
                    let after = project(&js, &disk, &u, post_sd);
                    if let Some(d) = diff(&snap, &after) {
                        let mut sig = vec![("field", d.field.clone())];
                        // narrow facts that identify known defect classes
                        if d.field == "slot-warm" {
                            let pre = tx_level.slots.contains(&(d.addr.unwrap(), d.slot.unwrap()));
                            sig.push(("slot_origin", if pre { "access_list".to_string() } else { "other".to_string() }));
                        }
                        if d.field == "balance" {
                            sig.push(("after_overflow_payment", overflow_payment_seen.to_string()));
                        }
                        out.push(Violation::new(
                            "C06",
                            "C06.revert-restores",
                            &sig,
                            format!("op {idx} checkpoint_revert did not restore the snapshot: {}", d.msg),
                        ));
                    }
                    // access model: forget what the reverted frames accessed, keep tx level
                    model = m;
                    model.addrs.extend(tx_level.addrs.iter().cloned());
                    model.slots.extend(tx_level.slots.iter().cloned());
                    stats.inc("probe.revert");
                    if failed_any {
                        stats.inc("probe.revert_after_failed_op");
                    }
                    nontrivial = true;
                }
            }
        }
        if db.fired() > calls_before {
            stats.inc("fault.fired");
        }
        if out.len() >= 4 {
            break;
        }
    }
    if nontrivial {
        stats.fingerprint(fp.finish());
    }
    if stats.samples.is_empty() {
        stats.samples.push(json!({"spec": case.spec, "ops": case.ops.iter().take(12).map(|o| format!("{o:?}")).collect::<Vec<_>>() }));
    }
    // de-duplicate by class
    let mut seen = BTreeSet::new();
    out.retain(|v| seen.insert(v.class_key()));
    out
}
