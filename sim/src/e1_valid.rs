//! E1 `txsim`, validity mode (C02): boundary-biased transaction fields against an
//! executable validity predicate, and "a rejected transaction leaves no trace" checked by
//! running the history with and without the rejected transactions.
use crate::core::*;
use crate::disk::*;
use crate::e1_twin::{run_tx, Via};
use crate::model::*;
use crate::sys::*;
use crate::world::*;
use revm::primitives::{Address, Bytes, SpecId, B256, U256};
use serde::{Deserialize, Serialize};
use serde_json::json;

#[derive(Clone, Debug, Serialize, Deserialize)]
pub struct VOp {
    pub tx: TxSpec,
    pub via: Via,
    #[serde(default)]
    pub faults: FaultPlan,
    /// a block-env mutation for this op only: 0 none, 1 no prevrandao, 2 no excess blob gas
    #[serde(default)]
    pub header_mut: u8,
}

#[derive(Clone, Debug, Serialize, Deserialize)]
pub struct VCase {
    pub world: World,
    pub ops: Vec<VOp>,
}

pub struct ValidSim;

fn versioned(i: u8, ok: bool) -> B256 {
    let mut b = [i; 32];
    b[0] = if ok { 0x01 } else { 0x02 };
    B256::from(b)
}

impl Engine for ValidSim {
    type Case = VCase;
    fn label(&self) -> String {
        "validsim/C02".into()
    }

    fn generate(&self, rng: &mut Rng) -> VCase {
        let mut k = WorldKnobs::new(InspKind::None);
        k.max_contracts = 3;
        k.snippets = (1, 5);
        let mut world = gen_world(rng, &k);
        let spec = world.cfg.spec_id();
        // a sender with code, a delegated sender, a poor sender
        let salt = world.disk.hash_salt;
        let coded = addr_from(salt, 8000);
        world.disk.accounts.insert(coded, DiskAccount { balance: U256::from(10u64).pow(U256::from(24)), code: Bytes::from(vec![0x00]), ..Default::default() });
        let delegated = addr_from(salt, 8001);
        let mut dcode = vec![0xef, 0x01, 0x00];
        dcode.extend_from_slice(world.contracts[0].as_slice());
        world.disk.accounts.insert(delegated, DiskAccount { balance: U256::from(10u64).pow(U256::from(24)), code: Bytes::from(dcode), ..Default::default() });
        world.universe.push(coded);
        world.universe.push(delegated);
        let n = rng.range(1, 10);
        let mut ops = Vec::new();
        for _ in 0..n {
            let mut tx = gen_tx(rng, &world);
            tx.auth_list = None;
            let mut header_mut = 0;
            // current sender state is only known at run time; boundary values are taken
            // relative to the disk state, later transactions drift (that is fine)
            let sender = world.disk.accounts.get(&tx.caller).cloned().unwrap_or_default();
            let n_mut = rng.weighted(&[3, 5, 2]);
            for _ in 0..n_mut {
                match rng.below(22) {
                    0 => tx.gas_limit = intrinsic_gas(spec, &tx).saturating_sub(1),
                    1 => tx.gas_limit = intrinsic_gas(spec, &tx),
                    2 => tx.gas_limit = floor_gas(spec, &tx).max(21000).saturating_sub(1),
                    3 => tx.gas_limit = floor_gas(spec, &tx).max(intrinsic_gas(spec, &tx)),
                    4 => tx.gas_limit = 30_000_000 + rng.below(2),
                    5 => tx.gas_price = world.block.basefee.saturating_sub(U256::from(rng.below(2))),
                    6 => {
                        tx.priority_fee = Some(tx.gas_price + U256::from(rng.below(2)));
                    }
                    7 => tx.nonce = Some(sender.nonce.wrapping_add(rng.below(3)).wrapping_sub(1)),
                    8 => tx.nonce = Some(u64::MAX),
                    9 => {
                        // balance boundary: value so that cost is balance-1, balance, balance+1
                        let gas_cost = tx.gas_price.saturating_mul(U256::from(tx.gas_limit));
                        if sender.balance > gas_cost {
                            tx.value = sender.balance - gas_cost + U256::from(rng.below(3)) - U256::from(1);
                        }
                    }
                    10 => {
                        // products that overflow 2^256
                        tx.gas_price = U256::MAX / U256::from(tx.gas_limit.max(1)) + U256::from(rng.below(2));
                        tx.priority_fee = None;
                    }
                    11 => tx.value = U256::MAX - U256::from(rng.below(3)),
                    12 => tx.caller = if rng.bool() { coded } else { delegated },
                    13 => {
                        // create with initcode around the size limit
                        let lim = world.cfg.code_size_limit.map(|l| l * 2).unwrap_or(2 * 0x6000);
                        let len = (lim + rng.below(3) as usize).saturating_sub(1);
                        tx.to = None;
                        tx.data = Bytes::from(vec![0u8; len]);
                        tx.gas_limit = 29_000_000;
                    }
                    14 => {
                        let count = *rng.pick(&[0usize, 1, 6, 7, 9, 10]);
                        tx.blob_hashes = (0..count).map(|i| versioned(i as u8, true)).collect();
                        tx.max_fee_per_blob_gas = Some(match rng.below(3) {
                            0 => U256::ZERO,
                            1 => blob_gasprice(spec, world.block.excess_blob_gas.unwrap_or(0)),
                            _ => U256::from(1_000_000u64),
                        });
                    }
                    15 => {
                        tx.blob_hashes = vec![versioned(1, false)];
                        tx.max_fee_per_blob_gas = Some(U256::from(1_000_000u64));
                    }
                    16 => tx.blob_hashes = vec![versioned(1, true)],
                    17 => {
                        tx.auth_list = Some(if rng.bool() { vec![] } else { vec![AuthSpec { chain_id: 1, address: world.contracts[0], nonce: 0, authority: Some(world.eoas[0]) }] });
                    }
                    18 => {
                        if tx.access_list.is_empty() {
                            tx.access_list.push((world.contracts[0], vec![U256::from(1)]));
                        }
                    }
                    19 => tx.chain_id = Some(*rng.pick(&[1u64, 2, 0])),
                    20 => header_mut = rng.range(1, 2) as u8,
                    _ => tx.gas_limit = 21_000,
                }
            }
            // combinations the wire format cannot express and the EIPs are silent about are not generated
            if tx.to.is_none() {
                tx.auth_list = None;
            }
            let via = *rng.pick(&[Via::TransactThenCommit, Via::TransactThenCommit, Via::TransactCommit, Via::PreverifyOnly, Via::TransactOnly]);
            let mut faults = FaultPlan::default();
            if rng.chance(1, 8) {
                faults.at_calls.insert(rng.below(3));
            }
            ops.push(VOp { tx, via, faults, header_mut });
        }
        VCase { world, ops }
    }

    fn execute(&self, case: &VCase, stats: &mut Stats) -> Vec<Violation> {
        let w = &case.world;
        let spec = w.cfg.spec_id();
        let sc = spec.is_enabled_in(SpecId::SPURIOUS_DRAGON);
        let mut cfg = w.cfg.clone();
        cfg.insp = InspKind::None;
        let mut a = Sys::new(&cfg, w.disk.clone(), &w.block);
        let mut b = Sys::new(&cfg, w.disk.clone(), &w.block);
        let mut out = Vec::new();
        let mut fp = Hasher64::new();
        fp.s(&w.cfg.spec);
        let mut universe: Vec<Address> = w.universe.clone();
        universe.extend(w.disk.accounts.keys().cloned());
        universe.sort();
        universe.dedup();
        let mut rejected_seen = false;
        let mut accepted_after_reject = false;
        for (i, op) in case.ops.iter().enumerate() {
            let mut block = w.block.clone();
            match op.header_mut {
                1 => block.prevrandao = None,
                2 => block.excess_blob_gas = None,
                _ => {}
            }
            a.set_block(&block);
            // ---- model verdict on the sender as the database has it now
            a.bottom.disarm();
            let sender = a.read_account(op.tx.caller, &[]).ok().flatten();
            let (verdict, rule) = validity(spec, cfg.chain_id, cfg.code_size_limit, &block, &op.tx, sender.as_ref());
            let before = a.logical_state(&universe, &w.slots, sc).unwrap();
            let ra = run_tx(&mut a, &op.tx, op.via, &op.faults, block.coinbase);
            let got = match &ra.outcome {
                TxOutcome::Invalid(s) if s.starts_with("header:") => Verdict::RejectHeader,
                TxOutcome::Invalid(_) => Verdict::RejectTx,
                TxOutcome::Db(_) => {
                    stats.inc("fault.F1_db_error_fired");
                    // F1 during validation/execution: must be an error, never accept/reject
                    let after = a.logical_state(&universe, &w.slots, sc).unwrap();
                    if after != before {
                        out.push(Violation::new("C02", "C02.no-trace", &[("case", "db-error".into())], format!("op {i}: aborted by a database fault but the state changed")));
                    }
                    rejected_seen = true;
                    continue;
                }
                _ => Verdict::Accept,
            };
            fp.s(&format!("{got:?}{rule}"));
            stats.inc(&format!("verdict.{got:?}"));
            if !rule.is_empty() {
                stats.inc(&format!("probe.rule_{rule}"));
            }
            if op.faults.is_empty() && got != verdict {
                out.push(Violation::new("C02", "C02.iff", &[("model", format!("{verdict:?}")), ("revm", format!("{got:?}")), ("rule", rule.to_string())], format!("op {i}: the validity rules say {verdict:?} ({rule}), revm answered {} for {:?}", ra.outcome.class(), op.tx)));
            }
            if got != Verdict::Accept {
                rejected_seen = true;
                // rejected: nothing may have changed
                let after = a.logical_state(&universe, &w.slots, sc).unwrap();
                if after != before {
                    out.push(Violation::new("C02", "C02.no-trace", &[("case", "rejected".into())], format!("op {i}: rejected ({}) but the state changed", ra.outcome.class())));
                }
                continue;
            }
            if rejected_seen {
                accepted_after_reject = true;
            }
            // accepted: system B (which never saw the rejected ones) must agree
            b.set_block(&block);
            let rb = run_tx(&mut b, &op.tx, op.via, &FaultPlan::default(), block.coinbase);
            if ra.outcome != rb.outcome || ra.digest != rb.digest {
                out.push(Violation::new("C02", "C02.as-if-never-submitted", &[("via", format!("{:?}", op.via))], format!("op {i}: result differs from the history without the rejected transactions: {} vs {}", ra.outcome.class(), rb.outcome.class())));
            }
            if out.len() >= 3 {
                break;
            }
        }
        if out.is_empty() {
            a.bottom.disarm();
            let sa = a.logical_state(&universe, &w.slots, sc).unwrap();
            let sb = b.logical_state(&universe, &w.slots, sc).unwrap();
            if sa != sb {
                let who = sa.accounts.keys().chain(sb.accounts.keys()).find(|k| sa.accounts.get(*k) != sb.accounts.get(*k)).cloned();
                out.push(Violation::new("C02", "C02.as-if-never-submitted", &[("via", "final-state".into())], format!("final state differs from the history without the rejected transactions at {who:?}")));
            }
        }
        if accepted_after_reject {
            stats.inc("probe.accepted_after_rejected");
        }
        stats.fingerprint(fp.finish());
        if stats.samples.is_empty() {
            stats.samples.push(json!({"spec": w.cfg.spec, "ops": case.ops.iter().take(6).map(|o| json!({"via": format!("{:?}", o.via), "gas_limit": o.tx.gas_limit, "gas_price": o.tx.gas_price, "nonce": o.tx.nonce, "value": o.tx.value, "blobs": o.tx.blob_hashes.len(), "header_mut": o.header_mut})).collect::<Vec<_>>()}));
        }
        let mut seen = std::collections::BTreeSet::new();
        out.retain(|v| seen.insert(v.class_key()));
        out
    }

    fn shrink(&self, case: &VCase) -> Vec<VCase> {
        let mut out = Vec::new();
        for ops in shrink_vec(&case.ops) {
            if ops.is_empty() {
                continue;
            }
            let mut c = case.clone();
            c.ops = ops;
            out.push(c);
        }
        for i in 0..case.ops.len() {
            let o = &case.ops[i];
            if !o.faults.is_empty() {
                let mut c = case.clone();
                c.ops[i].faults = FaultPlan::default();
                out.push(c);
            }
            if !o.tx.access_list.is_empty() {
                let mut c = case.clone();
                c.ops[i].tx.access_list.clear();
                out.push(c);
            }
            if !o.tx.data.is_empty() && o.tx.to.is_some() {
                let mut c = case.clone();
                c.ops[i].tx.data = Bytes::new();
                out.push(c);
            }
        }
        if case.world.cfg.stack != StackKind::Raw {
            let mut c = case.clone();
            c.world.cfg.stack = StackKind::Raw;
            out.push(c);
        }
        out
    }
}
