//! Property checks: which engines run for which property, with how many runs per tier.
use crate::core::*;
use crate::e1_tx::TxSim;
use crate::e1_twin::TwinSim;
use crate::e1_collide::CollideSim;
use crate::e1_valid::ValidSim;
use crate::e3_state::StateSim;
use crate::e3_wrap::WrapSim;
use crate::e4_adt::AdtSim;
use crate::e5_interp::InterpSim;
use crate::e2_journal::JournalSim;

fn seed_from_env() -> u64 {
    std::env::var("VERIF_SEED").ok().and_then(|s| s.parse().ok()).unwrap_or(DEFAULT_SEED)
}

pub fn main(args: &[String]) -> i32 {
    match args.first().map(|s| s.as_str()) {
        Some("check") => {
            let prop = args.get(1).cloned().unwrap_or_default();
            let tier = args.get(2).cloned().or_else(|| std::env::var("VERIF_TIER").ok()).unwrap_or_else(|| "quick".into());
            check(&prop, &tier)
        }
        Some("replay") => replay(args.get(1).map(|s| s.as_str()).unwrap_or("")),
        _ => {
            eprintln!("usage: vsim check <ID> <quick|thorough> | vsim replay <file>");
            2
        }
    }
}

fn scale(tier: &str, quick: u64, thorough: u64) -> u64 {
    let base = if tier == "thorough" { thorough } else { quick };
    // VERIF_SCALE lets development runs shrink or grow every batch
    let s: f64 = std::env::var("VERIF_SCALE").ok().and_then(|s| s.parse().ok()).unwrap_or(1.0);
    ((base as f64 * s) as u64).max(1)
}

const REAL_E2: &[&str] = &["revm::JournaledState (all operations, unmodified)", "revm_primitives::{Account, EvmStorageSlot, AccountStatus}"];
const STUB_E2: &[&str] = &["SimDisk (BTreeMap plain state)", "FaultyDb (fault-injecting Database)"];
const REAL_E1: &[&str] = &[
    "revm::Evm + Handler (mainnet handlers) + JournaledState + revm-interpreter (all opcodes) + revm-precompile incl. C libraries",
    "revm inspector_handle_register (real hook plumbing)",
    "revm::db::{CacheDB, State, WrapDatabaseRef} as drawn per run",
];
const STUB_E1: &[&str] = &[
    "SimDisk (BTreeMap plain state) + FaultyDb (fault-injecting Database) at the bottom of the stack",
    "Monitor (simulator's Inspector: probe + F3 short-circuit injector)",
    "generated contracts and transactions (seeded program generator)",
];

fn strs(v: &[&str]) -> Vec<String> {
    v.iter().map(|s| s.to_string()).collect()
}

const E1_RULE: &str = "seeded worlds (2-4 EOAs, 1-6 generated contracts with calldata-guarded snippets, CREATE/CREATE2 factories, 13 specs, layer stack and F7 knobs drawn per run) and histories of 1-4 transactions on one live Evm with the monitor inspector; faults: F1 database error at a drawn call index, F2 out-of-gas through low gas limits / constant call gas, F3 inspector short-circuits, F3b the inspector ends the running frame from step_end after a drawn instruction, F3c the inspector lowers a frame's gas limit inside its hook, F3e the inspector skips an inner frame from initialize_interp; values that snippets read flow on into storage / transient storage / memory; a case is non-trivial if at least one transaction executed and distinct by the hash of (spec, outcome classes, monitor event sequence)";

pub fn check(prop: &str, tier: &str) -> i32 {
    let seed = seed_from_env();
    let findings = Findings::load();
    let mut rep = CheckReport::new(prop, tier, seed);
    match prop {
        "C06" => {
            rep.rule = "E2: seeded histories of JournaledState operations with nested checkpoint/commit/revert over a fault-injecting database; E1: frame-level snapshots around every failed call/create frame of generated transactions; non-trivial if at least one state-changing operation ran; distinct by the hash of (spec, operation-kind sequence, failure results) resp. the E1 event hash".into();
            rep.real_components = strs(REAL_E2);
            rep.real_components.extend(strs(REAL_E1));
            rep.stub_components = strs(STUB_E2);
            rep.stub_components.extend(strs(STUB_E1));
            rep.assumptions = vec![
                "API preconditions respected as the EVM does (account loaded and warm before sstore/inc_nonce/set_code/selfdestruct; caller balance checked before create; checkpoints closed LIFO)".into(),
                "absent account/slot is identified with cold + database value; RIPEMD touch exception excluded".into(),
                "frame level: hooks fire before frame set-up, so warm marks and the creator's nonce bump are excluded".into(),
            ];
            rep.run_engine(&JournalSim { focus: "C06".into() }, scale(tier, 2_000_000, 30_000_000), &findings);
            rep.run_engine(&TxSim { focus: "C06".into() }, scale(tier, 400_000, 4_000_000), &findings);
        }
        "C07" | "C08" | "C09" | "C10" | "C11" | "C29" | "C30" | "C34" => {
            rep.rule = E1_RULE.into();
            rep.real_components = strs(REAL_E1);
            rep.stub_components = strs(STUB_E1);
            rep.assumptions = vec!["the monitor reads only the journaled state, never the database".into(), "injected inspector outcomes are legal ones (gas <= forwarded gas, results real frames produce)".into()];
            let (q, t) = match prop {
                "C07" => (20_000, 300_000),
                _ => (600_000, 6_000_000),
            };
            rep.run_engine(&TxSim { focus: prop.into() }, scale(tier, q, t), &findings);
            if prop == "C11" {
                // API level: SharedMemory context histories against a Vec<Vec<u8>> model
                rep.real_components.push("revm_interpreter::SharedMemory + resize_memory (API-level histories, E4)".into());
                rep.run_engine(&AdtSim { focus: "C11".into() }, scale(tier, 200_000, 10_000_000), &findings);
            }
            if prop == "C34" {
                rep.real_components.extend(strs(REAL_E2));
                rep.run_engine(&JournalSim { focus: "C34".into() }, scale(tier, 1_000_000, 10_000_000), &findings);
            }
        }
        "C28" | "C31" | "C22" => {
            rep.rule = format!("twin execution: the same seeded history (2-8 ops: transactions through transact / transact_commit / preverify / transact_preverified, {}) is applied to two systems and every result, returned state and the final committed state are compared; F1 database faults at drawn call indices{}; non-trivial if a transaction executed, distinct by the hash of (spec, op kinds, outcome classes)", match prop { "C28" => "observing inspector NoOp/Gas/EIP-3155/monitor vs no inspector; the tracer's trace sink fails on a drawn schedule (F8: error, Interrupted, short write, Ok(0), flush error)", "C31" => "spec changes, block advances; one reused Evm vs a brand-new Evm around the same database for every op", _ => "modify_spec_id, with_spec_id, append/pop handler register, modify().build(); reward-off handler vs reward-on handler" }, if prop == "C31" { " and enumerated over every database call index of marked ops" } else { "" });
            if prop == "C31" {
                rep.level = "fault_enumeration".into();
            }
            rep.real_components = strs(REAL_E1);
            rep.real_components.push("revm inspectors NoOpInspector, GasInspector, TracerEip3155 (C28)".into());
            rep.stub_components = strs(STUB_E1);
            rep.stub_components.push("FaultyWriter (the tracer's trace sink, failing on schedule; C28)".into());
            rep.assumptions = vec!["spec changes stay on one side of Spurious Dragon (the state-clear flag of the database layers is the embedder's job)".into(), "C22: histories in which the beneficiary is a party of a transaction are not compared (the twins may legitimately diverge)".into()];
            rep.run_engine(&TwinSim { mode: prop.into() }, scale(tier, 400_000, 4_000_000), &findings);
            #[cfg(feature = "optimism")]
            if prop == "C22" {
                rep.real_components.push("revm optimism handler register (Handler::optimism_with_spec(spec, reward)), fee vault credits".into());
                rep.run_engine(&crate::op_sim::OpRewardSim, scale(tier, 300_000, 3_000_000), &findings);
            }
        }
        "C15" | "C16" | "C17" | "C18" | "C19" => {
            rep.rule = "seeded histories of 1-6 transition groups (0-3 real EVM transactions each over a generated world with CREATE2 factories, self-destructs, storage writes, plus increment_balances / drain_balances) committed into a State with bundle tracking over the simulated disk; the scheduler decides merge points (one per group), flush points (take_bundle + changeset applied to the durable disk), crashes (Evm and State dropped, rebuilt over the durable disk, lost groups re-executed), the split point for extend / preloaded bundle and database faults (inside a transaction, inside increment_balances); oracles: reads vs reference plain state after every group, touched empty accounts removed (exactly, EIP-161) and State vs CacheDB results (C15), pre-state + changeset(Yes/No) = post-state (C16), revert walk group by group and bundle.revert(j) for every j (C17), A.extend(B) / take_n_reverts / prepend_state vs the monolithic bundle (C18), State with a preloaded bundle vs State over the merged disk (C19); distinct by the hash of (spec, execution results)".into();
            rep.real_components = vec![
                "revm::db::State, CacheState, CacheAccount, TransitionState, TransitionAccount, BundleState, BundleAccount, Reverts, AccountStatus (unmodified)".into(),
                "revm::Evm producing the committed EvmState of every transaction; CacheDB for the twin".into(),
            ];
            rep.stub_components = vec!["SimDisk + FaultyDb (simulated disk, fault injection)".into(), "reference appliers: apply_evm_state, apply_changeset, undo_group (sim/src/disk.rs, sim/src/e3_state.rs)".into()];
            rep.assumptions = vec!["plain state is compared after normalisation: zero slots dropped; with state clear an empty account without storage equals no account".into(), "State::storage is only called after the account was loaded (documented precondition)".into()];
            rep.run_engine(&StateSim { focus: prop.into() }, scale(tier, 300_000, 3_000_000), &findings);
        }
        #[cfg(feature = "optimism")]
        "C33" => {
            rep.rule = "optimism build: seeded worlds (BEDROCK..ISTHMUS, L1 block contract storage in Bedrock/Ecotone/Isthmus layouts incl. non-zero operator fee scalar and constant, fee vaults, Raw/CacheDB/State stacks) and histories of 1-4 regular, deposit and (pre-Regolith) system transactions with random enveloped bytes; deposits are pushed into halts at arbitrary points by low gas limits (F2); F1 database faults at drawn call indices (L1 block info reads, the failed-deposit path); oracles: sender debit = value + beneficiary + base-fee vault + L1 vault + operator vault credits, L1 vault credit = calculate_tx_l1_cost(enveloped), base-fee vault = base fee x gas used, deposit supply delta = mint, failed deposit persists exactly mint and nonce bump; distinct by the hash of (spec, kind and outcome sequence)".into();
            rep.real_components = vec!["revm optimism handler register (validation, deduct_caller, last_frame_return, refund, reimburse_caller, reward_beneficiary, output, end), L1BlockInfo, fast_lz; Evm + interpreter + layer stacks as in E1".into()];
            rep.stub_components = strs(STUB_E1);
            rep.assumptions = vec!["balances stay below 2^128 (saturating arithmetic is not the subject)".into(), "programs move no ether themselves (only the transaction's value), so the five parties' deltas are attributable".into(), "deposits that cannot start (gas limit below intrinsic gas) are not generated".into()];
            rep.run_engine(&crate::op_sim::OpSim, scale(tier, 600_000, 6_000_000), &findings);
        }
        "C20" => {
            rep.rule = "seeded worlds on the simulated disk, one of twelve wrapper stacks drawn per run (CacheDB, State, State+bundle, WrapDatabaseRef, WrapDatabaseRef<CacheDB>, CacheDB<CacheDB>, State<CacheDB>, Box<State<Box>>, DatabaseComponents<Arc,Arc>, CacheDB<DatabaseComponents>, and CacheDB<EmptyDB> / State<EmptyDB> holding the world themselves, loaded through insert_account_info / insert_account_storage / insert_account_with_storage) and sequences of 4-40 queries (basic, code_by_hash, storage, block_hash around the 256-block window / far past / future, has_storage) issued directly, through `&mut DB`, through `&mut dyn Database` in a Box and through the `_ref` forms, interleaved with real transactions committed through the stack, block-number jumps and, where a CacheDB is on top, direct insert_account_storage / replace_account_storage / insert_account_info calls on existing non-empty accounts; every answer must equal the reference (disk + committed changes); F1: a fault at a drawn bottom-level call index of a query must surface as an error (never a default) and the repeated query must then be right; distinct by the hash of (stack, query kinds, call forms)".into();
            rep.level = "fault_enumeration".into();
            rep.real_components = vec!["revm::db::{CacheDB, State, WrapDatabaseRef}, revm_primitives::db::{DatabaseComponents, Database/DatabaseRef auto_impls for &mut, Box, Arc} (unmodified)".into(), "revm::Evm for the committed transactions".into()];
            rep.stub_components = vec!["SimDisk + FaultyDb (also implementing the StateRef/BlockHashRef component traits)".into()];
            rep.assumptions = vec!["State::storage / has_storage are called after the account was loaded (documented precondition)".into(), "an existing empty account and a missing account are the same answer once state clearing is active; code may be handed out lazily".into(), "fault indices 0..2 per query cover every bottom-level call a single query makes (at most three)".into(), "EmptyDB stacks: block hashes are EmptyDB's keccak(decimal number); code of accounts inserted into a State is read the way the EVM does (inline code of `basic` first); no fault exists below them".into()];
            rep.run_engine(&WrapSim, scale(tier, 400_000, 10_000_000), &findings);
        }
        "C25" => {
            rep.rule = "E5: the interpreter alone on random byte strings, generated and mutated programs and every shipped EOF container (plus byte-mutated ones) that revm's own validation accepts, x calldata x gas limit (0 .. 1M) x 13 specs x static flag, with a simulated Host failing at a drawn host-call index and a simulated caller answering every CALL/CREATE/EOFCREATE action with a drawn legal outcome; oracles: no panic, the instruction-pointer hook (cfg risechain_revm_verif) never fires, remaining gas <= limit, stack <= 1024, at most gas_limit+2 steps, a defined final result, FatalExternalError after a failed host call. E1: every oracle of the whole-transaction monitor mode switched on, any panic inside revm during a transaction (incl. under database faults and inspector short-circuits) is a C25 violation. Distinct by the hash of (spec, eof flag, sub-action sequence, result, step count) resp. the E1 event hash".into();
            rep.real_components = vec![
                "revm-interpreter: Interpreter::run, all instruction handlers, Stack, SharedMemory, Gas, analysis (legacy jump table, EOF validation) with debug assertions, overflow checks and the verification hooks on".into(),
            ];
            rep.real_components.extend(strs(REAL_E1));
            rep.stub_components = vec!["SimHost (map-backed Host failing on schedule), simulated caller (drawn sub-call outcomes)".into()];
            rep.stub_components.extend(strs(STUB_E1));
            rep.assumptions = vec![
                "the input-space half of this property is ordinary seeded generation; what the simulation adds is the fault dimension (host / database failure at every call index), the hook as a run-time invariant and the step bound".into(),
                "memory safety beyond panics/assertions is covered by the Miri batch of the same engine (interp-miri/), interpreter crate only".into(),
            ];
            let corpus = std::sync::Arc::new(crate::e5_interp::load_eof_corpus("/repo/tests/eof_suite"));
            rep.extra.insert("eof_corpus_containers".into(), serde_json::json!(corpus.len()));
            rep.run_engine(&InterpSim { eof_corpus: corpus }, scale(tier, 400_000, 20_000_000), &findings);
            rep.run_engine(&TxSim { focus: "C25".into() }, scale(tier, 300_000, 3_000_000), &findings);
        }
        "C12" | "C13" => {
            rep.rule = if prop == "C12" {
                "seeded histories of 3-80 operations (push, push_b256, pop, peek, dup, swap, exchange, push_slice with lengths 0..=1024*32+64 biased to word boundaries and to the 1024 limit, set) on the real Stack against a Vec<U256> model, some starting from an almost full stack; one case in four is instead a program of stack instructions only (PUSH0, PUSH1-32 incl. a final PUSHn cut short by the end of the code, POP, DUP1-16, SWAP1-16 and, in an EOF container, DUPN / SWAPN / EXCHANGE with boundary immediates; up to 1100 instructions so that the 1024 limit is reached) executed by the real interpreter loop with the real instruction table under a gas limit that lands the out-of-gas on an arbitrary instruction, and the final stack, result and gas meter are compared with the list model; non-trivial always, distinct by the hash of (operation kinds, error/success sequence) resp. (spec, result, instruction kinds)".into()
            } else {
                "seeded histories of 3-80 operations (record_cost incl. 0 / remaining / remaining+1 / u64::MAX, erase_cost of part of what was spent, record_refund +/-, set_refund, set_final_refund London/pre-London, spend_all) on the real Gas meter with limits 0, small, large, u64::MAX against three integers; one case in four is a program of stack instructions run by the real interpreter loop whose gas limit is drawn inside the program's total cost (F2: the charge that fails must leave meter and stack as they were, every successful charge is exactly the instruction's cost); distinct by the hash of operation kinds".into()
            };
            rep.real_components = vec![if prop == "C12" { "revm_interpreter::Stack (unmodified, incl. its unsafe pointer copies)".into() } else { "revm_interpreter::Gas (unmodified)".into() }, "revm_interpreter::Interpreter::run + instruction table: instructions/stack.rs (pop, push0, push<N>, dup<N>, swap<N>, dupn, swapn, exchange), gas! charging, legacy code padding, Eof::decode (program cases)".into()];
            rep.stub_components = vec!["reference model (Vec<U256> resp. three integers) in sim/src/e4_adt.rs".into()];
            rep.assumptions = vec![
                "no environment fault, schedule or interleaving exists at this surface: what is used from deterministic simulation is the reference-model oracle over seeded operation histories with shrinking and replay (model conformance)".into(),
                "API preconditions respected (dup n >= 1, exchange m >= 1; erase_cost only of gas charged before; set_final_refund with a non-negative counter)".into(),
                "push_slice: the last short word equals the big-endian number of the remaining bytes (unused high-order bytes zero), as the shipped unit test pins".into(),
            ];
            rep.run_engine(&AdtSim { focus: prop.into() }, scale(tier, 400_000, 20_000_000), &findings);
            // (skipped when the meter already failed its own model: a meter that accepts every
            // charge lets generated programs allocate without bound, which aborts the process
            // instead of reporting)
            if prop == "C13" && rep.violations_reported == 0 {
                // frame accounting by real code: whole transactions with out-of-gas points (F2),
                // database faults (F1) and inspector short-circuits (F3); the monitor checks at
                // every instruction that remaining <= limit, that remaining never grows inside a
                // frame, and at every frame end that no more gas comes back than was given
                rep.real_components.extend(strs(REAL_E1));
                rep.stub_components.extend(strs(STUB_E1));
                rep.run_engine(&TxSim { focus: "C13".into() }, scale(tier, 300_000, 3_000_000), &findings);
            }
        }
        "C21" => {
            rep.rule = "collision matrix drawn per run: target pre-state {absent, code, nonce, storage only, balance only, nonce+storage} x layer stack {Raw, CacheDB, State, State+bundle, WrapDatabaseRef, WrapDatabaseRef<CacheDB>, CacheDB<CacheDB>, State<CacheDB>, Box<State<Box>>, CacheDB<EmptyDB>, State<EmptyDB> (world inserted into the layer itself)} (+ storage inserted into the CacheDB) x {CREATE, CREATE2, create transaction, EOFCREATE, EOF create transaction (the two EOF kinds under OSAKA)} x spec x {target touched by an earlier transaction or not} x value; a cell is distinct by (spec, layer, target state, kind, warm-up, value, lazy code)".into();
            rep.real_components = strs(REAL_E1);
            rep.stub_components = strs(STUB_E1);
            rep.assumptions = vec!["EIP-7610 is applied for every spec, as the property states".into(), "CREATE/CREATE2 cells run from Tangerine/Petersburg on (before EIP-150 a failed create leaves the caller without gas)".into()];
            rep.run_engine(&CollideSim, scale(tier, 400_000, 3_000_000), &findings);
        }
        "C02" => {
            rep.rule = "seeded histories of 1-10 transactions on one Evm whose fields are mutated to boundary values (gas limit around intrinsic/floor/block limit, fees around the base fee, nonce around the state nonce, value around the balance, overflowing cost products, sender with code / delegated, initcode around the size limit, blob counts and versions, authorization lists, access lists before Berlin, chain id, missing header fields); oracle 1: an executable validity predicate written from the EIPs must agree on accept / reject-transaction / reject-header; oracle 2: the same history without the rejected transactions on a second system gives equal results and an equal final state; F1: database faults during validation; non-trivial always, distinct by the hash of (spec, verdict and rule sequence)".into();
            rep.real_components = strs(REAL_E1);
            rep.stub_components = strs(STUB_E1);
            rep.stub_components.push("validity predicate (sim/src/model.rs, written from the EIP texts)".into());
            rep.assumptions = vec!["only the class of a rejection is compared (several rules can fail at once)".into(), "type-4 transactions with nil `to` are not generated (not expressible on the wire)".into()];
            rep.run_engine(&ValidSim, scale(tier, 400_000, 8_000_000), &findings);
        }
        _ => {
            eprintln!("unknown property {prop}");
            return 2;
        }
    }
    rep.finish()
}

pub fn replay(path: &str) -> i32 {
    let text = match std::fs::read_to_string(path) {
        Ok(t) => t,
        Err(e) => {
            eprintln!("cannot read {path}: {e}");
            return 2;
        }
    };
    let rf: ReplayFile = match serde_json::from_str(&text) {
        Ok(r) => r,
        Err(e) => {
            eprintln!("cannot parse {path}: {e}");
            return 2;
        }
    };
    let engine_kind = rf.engine.split('/').next().unwrap_or("").to_string();
    let focus = rf.engine.split('/').nth(1).unwrap_or("").to_string();
    let res = match engine_kind.as_str() {
        "journalsim" => replay_with(&JournalSim { focus }, &rf),
        "txsim" => replay_with(&TxSim { focus }, &rf),
        "twinsim" => replay_with(&TwinSim { mode: focus }, &rf),
        "validsim" => replay_with(&ValidSim, &rf),
        "collidesim" => replay_with(&CollideSim, &rf),
        "statesim" => replay_with(&StateSim { focus }, &rf),
        "adtsim" => replay_with(&AdtSim { focus }, &rf),
        "wrapsim" => replay_with(&WrapSim, &rf),
        #[cfg(feature = "optimism")]
        "opsim" if focus == "C22" => replay_with(&crate::op_sim::OpRewardSim, &rf),
        #[cfg(feature = "optimism")]
        "opsim" => replay_with(&crate::op_sim::OpSim, &rf),
        "interpsim" => replay_with(&InterpSim { eof_corpus: Default::default() }, &rf),
        other => Err(format!("unknown engine {other}")),
    };
    match res {
        Err(e) => {
            eprintln!("HARNESS-ERROR: {e}");
            2
        }
        Ok(vs) => {
            let findings = Findings::load();
            if let Some(v) = vs.iter().find(|v| v.same_class(&rf.violation)) {
                if let Some(f) = findings.matches(v) {
                    println!("KNOWN-FINDING: property={} {} [{}]", v.property, f.what, f.id);
                    println!("  {}", v.message);
                    return 0;
                }
                println!("VIOLATION property={} replay={}", v.property, path);
                println!("  oracle={} signature={:?}", v.oracle, v.signature);
                println!("  {}", v.message);
                1
            } else {
                println!("replay of {path}: the recorded violation ({}) does not occur on this tree; {} other violation(s)", rf.violation.oracle, vs.len());
                for v in &vs {
                    println!("  other: {} {:?} {}", v.oracle, v.signature, v.message);
                }
                0
            }
        }
    }
}
