//! Property checks: which engines run for which property, with how many runs per tier.
use crate::core::*;
use crate::e2_journal::JournalSim;

fn seed_from_env() -> u64 {
    std::env::var("VERIF_SEED").ok().and_then(|s| s.parse().ok()).unwrap_or(DEFAULT_SEED)
}

pub fn main(args: &[String]) -> i32 {
    match args.first().map(|s| s.as_str()) {
        Some("check") => {
            let prop = args.get(1).cloned().unwrap_or_default();
            let tier = args.get(2).cloned().or_else(|| std::env::var("VERIF_TIER").ok()).unwrap_or_else(|| "quick".into());
            check(&prop, &tier)
        }
        Some("replay") => replay(args.get(1).map(|s| s.as_str()).unwrap_or("")),
        _ => {
            eprintln!("usage: vsim check <ID> <quick|thorough> | vsim replay <file>");
            2
        }
    }
}

fn scale(tier: &str, quick: u64, thorough: u64) -> u64 {
    let base = if tier == "thorough" { thorough } else { quick };
    // VERIF_SCALE lets development runs shrink or grow every batch
    let s: f64 = std::env::var("VERIF_SCALE").ok().and_then(|s| s.parse().ok()).unwrap_or(1.0);
    ((base as f64 * s) as u64).max(1)
}

const REAL_E2: &[&str] = &["revm::JournaledState (all operations, unmodified)", "revm_primitives::{Account, EvmStorageSlot, AccountStatus}"];
const STUB_E2: &[&str] = &["SimDisk (BTreeMap plain state)", "FaultyDb (fault-injecting Database)"];

pub fn check(prop: &str, tier: &str) -> i32 {
    let seed = seed_from_env();
    let findings = Findings::load();
    let mut rep = CheckReport::new(prop, tier, seed);
    match prop {
        "C06" => {
            rep.rule = "seeded histories of JournaledState operations with nested checkpoint/commit/revert over a fault-injecting database; a case is non-trivial if at least one state-changing operation ran and distinct by the hash of (spec, operation-kind sequence, failure results)".into();
            rep.real_components = REAL_E2.iter().map(|s| s.to_string()).collect();
            rep.stub_components = STUB_E2.iter().map(|s| s.to_string()).collect();
            rep.assumptions = vec![
                "API preconditions respected as the EVM does (account loaded and warm before sstore/inc_nonce/set_code/selfdestruct; caller balance checked before create; checkpoints closed LIFO)".into(),
                "absent account/slot is identified with cold + database value; RIPEMD touch exception excluded".into(),
            ];
            rep.run_engine(&JournalSim { focus: "C06".into() }, scale(tier, 200_000, 10_000_000), &findings);
        }
        _ => {
            eprintln!("unknown property {prop}");
            return 2;
        }
    }
    rep.finish()
}

pub fn replay(path: &str) -> i32 {
    let text = match std::fs::read_to_string(path) {
        Ok(t) => t,
        Err(e) => {
            eprintln!("cannot read {path}: {e}");
            return 2;
        }
    };
    let rf: ReplayFile = match serde_json::from_str(&text) {
        Ok(r) => r,
        Err(e) => {
            eprintln!("cannot parse {path}: {e}");
            return 2;
        }
    };
    let engine_kind = rf.engine.split('/').next().unwrap_or("").to_string();
    let focus = rf.engine.split('/').nth(1).unwrap_or("").to_string();
    let res = match engine_kind.as_str() {
        "journalsim" => replay_with(&JournalSim { focus }, &rf),
        other => Err(format!("unknown engine {other}")),
    };
    match res {
        Err(e) => {
            eprintln!("HARNESS-ERROR: {e}");
            2
        }
        Ok(vs) => {
            let findings = Findings::load();
            if let Some(v) = vs.iter().find(|v| v.same_class(&rf.violation)) {
                if let Some(f) = findings.matches(v) {
                    println!("KNOWN-FINDING: property={} {} [{}]", v.property, f.what, f.id);
                    println!("  {}", v.message);
                    return 0;
                }
                println!("VIOLATION property={} replay={}", v.property, path);
                println!("  oracle={} signature={:?}", v.oracle, v.signature);
                println!("  {}", v.message);
                1
            } else {
                println!("replay of {path}: the recorded violation ({}) does not occur on this tree; {} other violation(s)", rf.violation.oracle, vs.len());
                for v in &vs {
                    println!("  other: {} {:?} {}", v.oracle, v.signature, v.message);
                }
                0
            }
        }
    }
}
