//! Tiny assembler and the seeded program generator (DESIGN §3.3).
//!
//! Programs are sequences of self-contained *snippets* (each leaves the stack as it
//! found it). A snippet may be guarded by one calldata byte, so one world supports many
//! different transactions; calldata is forwarded (optionally shifted) to callees.
use crate::core::Rng;
use crate::itp::primitives::{keccak256, Address, Bytes, SpecId, B256, U256};

pub mod op {
    pub const STOP: u8 = 0x00;
    pub const ADD: u8 = 0x01;
    pub const MUL: u8 = 0x02;
    pub const SUB: u8 = 0x03;
    pub const EXP: u8 = 0x0a;
    pub const ISZERO: u8 = 0x15;
    pub const BYTE: u8 = 0x1a;
    pub const KECCAK256: u8 = 0x20;
    pub const ADDRESS: u8 = 0x30;
    pub const BALANCE: u8 = 0x31;
    pub const ORIGIN: u8 = 0x32;
    pub const CALLER: u8 = 0x33;
    pub const CALLVALUE: u8 = 0x34;
    pub const CALLDATALOAD: u8 = 0x35;
    pub const CALLDATASIZE: u8 = 0x36;
    pub const CALLDATACOPY: u8 = 0x37;
    pub const CODESIZE: u8 = 0x38;
    pub const CODECOPY: u8 = 0x39;
    pub const GASPRICE: u8 = 0x3a;
    pub const EXTCODESIZE: u8 = 0x3b;
    pub const EXTCODECOPY: u8 = 0x3c;
    pub const RETURNDATASIZE: u8 = 0x3d;
    pub const RETURNDATACOPY: u8 = 0x3e;
    pub const EXTCODEHASH: u8 = 0x3f;
    pub const BLOCKHASH: u8 = 0x40;
    pub const COINBASE: u8 = 0x41;
    pub const NUMBER: u8 = 0x43;
    pub const SELFBALANCE: u8 = 0x47;
    pub const BASEFEE: u8 = 0x48;
    pub const POP: u8 = 0x50;
    pub const MLOAD: u8 = 0x51;
    pub const MSTORE: u8 = 0x52;
    pub const MSTORE8: u8 = 0x53;
    pub const SLOAD: u8 = 0x54;
    pub const SSTORE: u8 = 0x55;
    pub const JUMP: u8 = 0x56;
    pub const JUMPI: u8 = 0x57;
    pub const PC: u8 = 0x58;
    pub const MSIZE: u8 = 0x59;
    pub const GAS: u8 = 0x5a;
    pub const JUMPDEST: u8 = 0x5b;
    pub const TLOAD: u8 = 0x5c;
    pub const TSTORE: u8 = 0x5d;
    pub const MCOPY: u8 = 0x5e;
    pub const PUSH0: u8 = 0x5f;
    pub const PUSH1: u8 = 0x60;
    pub const PUSH2: u8 = 0x61;
    pub const PUSH20: u8 = 0x73;
    pub const PUSH32: u8 = 0x7f;
    pub const DUP1: u8 = 0x80;
    pub const SWAP1: u8 = 0x90;
    pub const LOG0: u8 = 0xa0;
    pub const CREATE: u8 = 0xf0;
    pub const CALL: u8 = 0xf1;
    pub const CALLCODE: u8 = 0xf2;
    pub const RETURN: u8 = 0xf3;
    pub const DELEGATECALL: u8 = 0xf4;
    pub const CREATE2: u8 = 0xf5;
    pub const STATICCALL: u8 = 0xfa;
    pub const REVERT: u8 = 0xfd;
    pub const INVALID: u8 = 0xfe;
    pub const SELFDESTRUCT: u8 = 0xff;
}
use op::*;

#[derive(Default, Clone)]
pub struct Asm {
    pub code: Vec<u8>,
}

impl Asm {
    pub fn new() -> Self {
        Asm { code: Vec::new() }
    }
    pub fn op(&mut self, o: u8) -> &mut Self {
        self.code.push(o);
        self
    }
    pub fn raw(&mut self, b: &[u8]) -> &mut Self {
        self.code.extend_from_slice(b);
        self
    }
    /// minimal-width PUSH (never PUSH0, for Frontier compatibility)
    pub fn push(&mut self, v: U256) -> &mut Self {
        let be = v.to_be_bytes::<32>();
        let first = be.iter().position(|b| *b != 0).unwrap_or(31);
        let bytes = &be[first..];
        self.code.push(PUSH1 + (bytes.len() as u8 - 1));
        self.code.extend_from_slice(bytes);
        self
    }
    pub fn push_u(&mut self, v: u64) -> &mut Self {
        self.push(U256::from(v))
    }
    pub fn push_addr(&mut self, a: Address) -> &mut Self {
        self.code.push(PUSH20);
        self.code.extend_from_slice(a.as_slice());
        self
    }
    pub fn push2(&mut self, v: u16) -> &mut Self {
        self.code.push(PUSH2);
        self.code.extend_from_slice(&v.to_be_bytes());
        self
    }
    pub fn len(&self) -> usize {
        self.code.len()
    }
    pub fn bytes(&self) -> Bytes {
        Bytes::from(self.code.clone())
    }
}

/// How much gas a call snippet forwards.
#[derive(Clone, Copy, Debug)]
pub enum GasArg {
    All,
    Const(u64),
}

/// What the generator knows about the world while it writes programs.
#[derive(Clone, Debug)]
pub struct GenCtx {
    pub spec: SpecId,
    /// addresses programs may name (contracts, EOAs, precompiles, constants, not-yet-created)
    pub addr_pool: Vec<Address>,
    /// callable contract addresses (subset of addr_pool)
    pub callees: Vec<Address>,
    pub slots: Vec<U256>,
    /// initcodes available to CREATE/CREATE2 snippets
    pub initcodes: Vec<Bytes>,
    pub salts: Vec<U256>,
    /// bias knobs (swarm): weights per snippet family
    pub w_storage: u32,
    pub w_transient: u32,
    pub w_log: u32,
    pub w_ext: u32,
    pub w_mem: u32,
    pub w_call: u32,
    pub w_create: u32,
    pub w_selfdestruct: u32,
    pub w_term: u32,
    pub w_precompile: u32,
    pub w_env: u32,
    pub w_raw: u32,
    pub w_value: u32,
    /// how many times CALLCODE is entered into the draw of call kinds (1 = one in eight)
    pub w_callcode: u32,
    /// values read by snippets may flow on into storage / transient storage / memory
    pub observe: bool,
    pub guard_pct: u64,
    /// upper bound for the gas argument of generated calls (None: may forward all gas)
    pub max_call_gas: Option<u64>,
}

impl GenCtx {
    pub fn new(spec: SpecId) -> Self {
        GenCtx {
            spec,
            addr_pool: vec![],
            callees: vec![],
            slots: vec![U256::ZERO, U256::from(1)],
            initcodes: vec![],
            salts: vec![U256::ZERO, U256::from(1)],
            w_storage: 10,
            w_transient: 3,
            w_log: 3,
            w_ext: 5,
            w_mem: 5,
            w_call: 12,
            w_create: 4,
            w_selfdestruct: 2,
            w_term: 3,
            w_precompile: 2,
            w_env: 2,
            w_raw: 1,
            w_value: 30,
            w_callcode: 1,
            observe: true,
            guard_pct: 50,
            max_call_gas: None,
        }
    }
}

fn small_mem_off(rng: &mut Rng) -> u64 {
    match rng.below(8) {
        0 => 0,
        1 => 31,
        2 => 32,
        3 => 64,
        4 => 96,
        5 => rng.below(200),
        6 => 1024 + rng.below(64),
        _ => rng.below(64),
    }
}
fn small_len(rng: &mut Rng) -> u64 {
    match rng.below(6) {
        0 => 0,
        1 => 1,
        2 => 32,
        3 => 33,
        _ => rng.below(70),
    }
}

pub fn call_value(rng: &mut Rng, ctx: &GenCtx) -> U256 {
    if rng.below(100) < ctx.w_value as u64 {
        match rng.below(6) {
            0 => U256::from(1),
            1 => U256::MAX,
            2 => U256::from(1u64) << 200,
            _ => U256::from(rng.below(50)),
        }
    } else {
        U256::ZERO
    }
}

/// CALL-family snippet: forwards calldata shifted by `shift`, output window (out_off,out_len)
#[allow(clippy::too_many_arguments)]
pub fn emit_call(
    a: &mut Asm,
    opcode: u8,
    gas: GasArg,
    target: Address,
    value: U256,
    shift: u64,
    out_off: u64,
    out_len: u64,
    in_mem_off: u64,
) {
    // copy calldata[shift..] to memory at in_mem_off
    a.op(CALLDATASIZE).push_u(shift).push_u(in_mem_off).op(CALLDATACOPY);
    // args: gas, addr, [value], inOff, inLen, outOff, outLen  (pushed in reverse)
    a.push_u(out_len).push_u(out_off);
    a.op(CALLDATASIZE).push_u(in_mem_off);
    if opcode == CALL || opcode == CALLCODE {
        a.push(value);
    }
    a.push_addr(target);
    match gas {
        GasArg::All => {
            a.op(GAS);
        }
        GasArg::Const(g) => {
            a.push_u(g);
        }
    }
    a.op(opcode).op(POP);
}

/// CREATE / CREATE2 snippet with the initcode embedded as PUSH32 chunks into memory.
pub fn emit_create(a: &mut Asm, create2: bool, value: U256, initcode: &[u8], salt: U256, mem_off: u64) {
    // write initcode to memory in 32-byte words
    for (i, chunk) in initcode.chunks(32).enumerate() {
        let mut w = [0u8; 32];
        w[..chunk.len()].copy_from_slice(chunk);
        a.op(PUSH32).raw(&w).push_u(mem_off + 32 * i as u64).op(MSTORE);
    }
    if create2 {
        a.push(salt);
    }
    a.push_u(initcode.len() as u64).push_u(mem_off).push(value);
    a.op(if create2 { CREATE2 } else { CREATE }).op(POP);
}

/// Wrap runtime code into initcode: optional prologue, then CODECOPY + RETURN.
pub fn wrap_initcode(prologue: &[u8], runtime: &[u8]) -> Bytes {
    // layout: prologue | PUSH2 len PUSH2 off PUSH1 0 CODECOPY PUSH2 len PUSH1 0 RETURN | runtime
    let tail_len = 3 + 3 + 2 + 1 + 3 + 2 + 1;
    let off = prologue.len() + tail_len;
    let mut a = Asm::new();
    a.raw(prologue);
    a.push2(runtime.len() as u16).push2(off as u16).op(PUSH1).raw(&[0]).op(CODECOPY);
    a.push2(runtime.len() as u16).op(PUSH1).raw(&[0]).op(RETURN);
    debug_assert_eq!(a.len(), off);
    a.raw(runtime);
    a.bytes()
}

pub fn create_address(creator: Address, nonce: u64) -> Address {
    creator.create(nonce)
}
pub fn create2_address(creator: Address, salt: U256, initcode: &[u8]) -> Address {
    creator.create2(salt.to_be_bytes::<32>(), keccak256(initcode))
}

fn has(spec: SpecId, s: SpecId) -> bool {
    spec.is_enabled_in(s)
}

/// One unguarded snippet. Returns true if the snippet terminates execution.
/// What happens to a value a snippet has read (a storage or transient slot, a balance, a
/// code size, a memory word, a block hash): mostly dropped, but often written somewhere a
/// later observer can see it, so that a wrong value read anywhere becomes a wrong state.
fn sink(rng: &mut Rng, ctx: &GenCtx, a: &mut Asm) {
    if !ctx.observe {
        a.op(POP);
        return;
    }
    match rng.below(10) {
        0 | 1 | 2 => {
            a.push(*rng.pick(&ctx.slots)).op(SSTORE);
        }
        3 if has(ctx.spec, SpecId::CANCUN) => {
            a.push(*rng.pick(&ctx.slots)).op(TSTORE);
        }
        4 => {
            a.push_u(small_mem_off(rng)).op(MSTORE);
        }
        _ => {
            a.op(POP);
        }
    }
}

pub fn gen_snippet(rng: &mut Rng, ctx: &GenCtx, a: &mut Asm, depth: u32) -> bool {
    let spec = ctx.spec;
    let w = [
        ctx.w_storage,
        if has(spec, SpecId::CANCUN) { ctx.w_transient } else { 0 },
        ctx.w_log,
        ctx.w_ext,
        ctx.w_mem,
        if ctx.callees.is_empty() { 0 } else { ctx.w_call },
        if ctx.initcodes.is_empty() || depth > 2 { 0 } else { ctx.w_create },
        ctx.w_selfdestruct,
        ctx.w_term,
        ctx.w_precompile,
        ctx.w_env,
        ctx.w_raw,
    ];
    let k = *rng.pick(&ctx.slots);
    let addr = if ctx.addr_pool.is_empty() { Address::ZERO } else { *rng.pick(&ctx.addr_pool) };
    match rng.weighted(&w) {
        0 => {
            if rng.chance(2, 3) {
                a.push_u(rng.below(4)).push(k).op(SSTORE);
            } else {
                a.push(k).op(SLOAD);
                sink(rng, ctx, a);
            }
        }
        1 => {
            if rng.chance(2, 3) {
                a.push_u(rng.below(3)).push(k).op(TSTORE);
            } else {
                a.push(k).op(TLOAD);
                sink(rng, ctx, a);
            }
        }
        2 => {
            let n = rng.below(5) as u8;
            for i in 0..n {
                a.push_u(i as u64 + 1);
            }
            a.push_u(small_len(rng)).push_u(small_mem_off(rng)).op(LOG0 + n);
        }
        3 => match rng.below(5) {
            0 => {
                a.push_addr(addr).op(BALANCE);
                sink(rng, ctx, a);
            }
            1 => {
                a.push_addr(addr).op(EXTCODESIZE);
                sink(rng, ctx, a);
            }
            2 => {
                if has(spec, SpecId::CONSTANTINOPLE) {
                    a.push_addr(addr).op(EXTCODEHASH);
                    sink(rng, ctx, a);
                } else {
                    a.push_addr(addr).op(EXTCODESIZE);
                    sink(rng, ctx, a);
                }
            }
            3 => {
                a.push_u(small_len(rng)).push_u(rng.below(8)).push_u(small_mem_off(rng)).push_addr(addr).op(EXTCODECOPY);
            }
            _ => {
                if has(spec, SpecId::ISTANBUL) {
                    a.op(SELFBALANCE);
                    sink(rng, ctx, a);
                } else {
                    a.op(ADDRESS).op(BALANCE);
                    sink(rng, ctx, a);
                }
            }
        },
        4 => match rng.below(6) {
            0 => {
                a.push(U256::from(rng.next_u64())).push_u(small_mem_off(rng)).op(MSTORE);
            }
            1 => {
                a.push_u(small_mem_off(rng)).op(MLOAD);
                sink(rng, ctx, a);
            }
            2 => {
                a.push_u(rng.below(256)).push_u(small_mem_off(rng)).op(MSTORE8);
            }
            3 => {
                a.op(MSIZE);
                sink(rng, ctx, a);
            }
            4 => {
                if has(spec, SpecId::CANCUN) {
                    a.push_u(small_len(rng)).push_u(small_mem_off(rng)).push_u(small_mem_off(rng)).op(MCOPY);
                } else {
                    a.push_u(small_len(rng)).push_u(small_mem_off(rng)).op(KECCAK256);
                    sink(rng, ctx, a);
                }
            }
            _ => {
                if has(spec, SpecId::BYZANTIUM) {
                    // copy (a prefix of) the return data; may halt when out of bounds
                    a.op(RETURNDATASIZE).push_u(0).push_u(small_mem_off(rng)).op(RETURNDATACOPY);
                } else {
                    a.op(MSIZE);
                    sink(rng, ctx, a);
                }
            }
        },
        5 => {
            let target = *rng.pick(&ctx.callees);
            let mut ops = vec![CALL, CALL, CALL, CALLCODE];
            for _ in 1..ctx.w_callcode {
                ops.push(CALLCODE);
            }
            if has(spec, SpecId::HOMESTEAD) {
                ops.push(DELEGATECALL);
                ops.push(DELEGATECALL);
            }
            if has(spec, SpecId::BYZANTIUM) {
                ops.push(STATICCALL);
                ops.push(STATICCALL);
            }
            let opcode = *rng.pick(&ops);
            let gas = match if ctx.max_call_gas.is_some() { 1 } else { rng.below(6) } {
                1 if ctx.max_call_gas.is_some() => GasArg::Const(rng.below(ctx.max_call_gas.unwrap())),
                0 => GasArg::Const(rng.below(3000)),
                1 => GasArg::Const(rng.below(60_000)),
                2 => GasArg::Const(0),
                _ => GasArg::All,
            };
            let value = call_value(rng, ctx);
            let shift = 1 + rng.below(3);
            let out_off = small_mem_off(rng);
            let out_len = small_len(rng);
            emit_call(a, opcode, gas, target, value, shift, out_off, out_len, 128 + 32 * rng.below(4));
            // what the callee returned into the window (and what the call left of the memory
            // around it) sometimes flows on into state
            if rng.chance(1, 4) {
                a.push_u(out_off).op(MLOAD);
                sink(rng, ctx, a);
            }
        }
        6 => {
            let ic = rng.pick(&ctx.initcodes).clone();
            let create2 = has(spec, SpecId::PETERSBURG) && rng.chance(2, 3);
            let salt = *rng.pick(&ctx.salts);
            emit_create(a, create2, call_value(rng, ctx), &ic, salt, 256);
        }
        7 => {
            let b = match rng.below(4) {
                0 => None,
                _ => Some(addr),
            };
            match b {
                None => {
                    a.op(ADDRESS);
                }
                Some(x) => {
                    a.push_addr(x);
                }
            }
            a.op(SELFDESTRUCT);
            return true;
        }
        8 => {
            match rng.below(5) {
                0 => {
                    a.op(STOP);
                }
                1 => {
                    a.push_u(small_len(rng)).push_u(small_mem_off(rng)).op(RETURN);
                }
                2 => {
                    if has(spec, SpecId::BYZANTIUM) {
                        a.push_u(small_len(rng)).push_u(small_mem_off(rng)).op(REVERT);
                    } else {
                        a.op(INVALID);
                    }
                }
                3 => {
                    a.op(INVALID);
                }
                _ => {
                    // invalid jump
                    a.push_u(1).op(JUMP);
                }
            }
            return true;
        }
        9 => {
            // precompile call with a small input
            let p = Address::with_last_byte(rng.range(1, 10) as u8);
            emit_call(a, if rng.bool() || !has(spec, SpecId::BYZANTIUM) { CALL } else { STATICCALL }, if rng.chance(1, 4) || ctx.max_call_gas.is_some() { GasArg::Const(rng.below(ctx.max_call_gas.unwrap_or(700))) } else { GasArg::All }, p, if rng.chance(1, 5) { U256::from(1) } else { U256::ZERO }, 0, small_mem_off(rng), small_len(rng), 128);
        }
        10 => match rng.below(6) {
            0 => {
                a.push_u(rng.below(600)).op(BLOCKHASH);
                sink(rng, ctx, a);
            }
            1 => {
                a.op(COINBASE).op(BALANCE);
                sink(rng, ctx, a);
            }
            2 => {
                a.op(ORIGIN).op(CALLER).op(CALLVALUE).op(GASPRICE).op(NUMBER).op(POP).op(POP).op(POP).op(POP).op(POP);
            }
            3 => {
                a.op(CODESIZE).op(PC).op(GAS).op(POP).op(POP).op(POP);
            }
            4 => {
                a.push(U256::from(rng.next_u64())).push_u(rng.below(40)).op(EXP).op(POP);
            }
            _ => {
                if has(spec, SpecId::LONDON) {
                    a.op(BASEFEE).op(POP);
                } else {
                    a.push_u(3).push_u(4).op(MUL).op(POP);
                }
            }
        },
        _ => {
            // raw random bytes: chaos (unknown opcodes, truncated pushes, stack errors)
            let n = rng.range(1, 6) as usize;
            a.raw(&rng.bytes(n));
        }
    }
    false
}

/// A whole program: `n` snippets, each guarded by a calldata byte with probability
/// `guard_pct`. The guard index is the snippet index, so calldata byte i enables snippet i.
pub fn gen_program(rng: &mut Rng, ctx: &GenCtx, n: usize, depth: u32) -> Bytes {
    let mut a = Asm::new();
    for i in 0..n {
        let mut body = Asm::new();
        let term = gen_snippet(rng, ctx, &mut body, depth);
        let guarded = rng.below(100) < ctx.guard_pct || term && rng.chance(3, 4);
        if guarded {
            // if calldata[i] == 0 skip the body
            let dest = a.len() + 2 + 1 + 2 + 1 + 1 + 3 + 1 + body.len();
            a.op(PUSH1).raw(&[i as u8]).op(CALLDATALOAD).op(PUSH1).raw(&[0]).op(BYTE).op(ISZERO);
            a.push2(dest as u16).op(JUMPI);
            a.raw(&body.code);
            debug_assert_eq!(a.len(), dest);
            a.op(JUMPDEST);
        } else {
            a.raw(&body.code);
            if term {
                break;
            }
        }
    }
    a.bytes()
}

/// The recursion prober of C07: calls itself with all gas, counts successful nesting.
/// Returns (in 32 bytes) 1 + the value returned by the inner call, or 0 when the inner
/// call failed. Slot-free, so that it works under STATICCALL as well.
pub fn depth_prober(self_addr: Address) -> Bytes {
    let mut a = Asm::new();
    // mem[0..32] = 0
    a.push_u(0).push_u(0).op(MSTORE);
    // call self: out window = mem[0..32]
    a.push_u(32).push_u(0).push_u(0).push_u(0).push_u(0).push_addr(self_addr).op(GAS).op(CALL);
    // stack: success. if success: mem[0] = mem[0] + 1 else mem[0] = 0
    // success * (mem[0] + 1)
    a.push_u(0).op(MLOAD).push_u(1).op(ADD).op(MUL);
    a.push_u(0).op(MSTORE);
    a.push_u(32).push_u(0).op(RETURN);
    a.bytes()
}

pub fn hash_bytes(b: &[u8]) -> B256 {
    keccak256(b)
}

// ---------------------------------------------------------------- EOF programs (OSAKA)

const RJUMPI: u8 = 0xe1;
const RETURNDATALOAD: u8 = 0xf7;
const EXTCALL: u8 = 0xf8;
const EXTDELEGATECALL: u8 = 0xf9;
const EXTSTATICCALL: u8 = 0xfb;

/// Wrap one code section into an EOF v1 container (no data, no sub-containers).
/// `max_stack` is the exact maximal stack height of the section.
pub fn eof_container(code: &[u8], max_stack: u16) -> Bytes {
    eof_container_with(code, max_stack, &[])
}

/// Same, with sub-containers (kind 3 section).
pub fn eof_container_with(code: &[u8], max_stack: u16, subs: &[Bytes]) -> Bytes {
    let mut v = vec![0xef, 0x00, 0x01];
    v.extend_from_slice(&[0x01, 0x00, 0x04]); // types: one entry
    v.extend_from_slice(&[0x02, 0x00, 0x01]);
    v.extend_from_slice(&(code.len() as u16).to_be_bytes());
    if !subs.is_empty() {
        v.push(0x03);
        v.extend_from_slice(&(subs.len() as u16).to_be_bytes());
        for s in subs {
            v.extend_from_slice(&(s.len() as u16).to_be_bytes());
        }
    }
    v.extend_from_slice(&[0x04, 0x00, 0x00]); // data size 0
    v.push(0x00);
    v.extend_from_slice(&[0x00, 0x80]); // inputs 0, non-returning
    v.extend_from_slice(&max_stack.to_be_bytes());
    v.extend_from_slice(code);
    for s in subs {
        v.extend_from_slice(s);
    }
    Bytes::from(v)
}

/// An init container: optional SSTORE, then RETURNCONTRACT of a runtime container that
/// just stops (or, for `fail`, an init container that reverts).
pub fn eof_init_container(fail: bool) -> Bytes {
    let runtime = eof_container(&[STOP], 0);
    let mut a = Asm::new();
    if fail {
        a.push_u(0).push_u(0).op(REVERT);
        return eof_container_with(&a.code, 2, &[]);
    }
    a.push_u(7).push_u(3).op(SSTORE);
    a.push_u(0).push_u(0).op(0xee).raw(&[0]); // RETURNCONTRACT 0
    eof_container_with(&a.code, 2, &[runtime])
}

/// A straight-line EOF program of `n` balanced snippets (each optionally guarded by a
/// calldata byte through RJUMPI), ending in STOP. Returns the container.
pub fn gen_eof_program(rng: &mut Rng, ctx: &GenCtx, n: usize) -> Bytes {
    gen_eof_program_kind(rng, ctx, n, false)
}

/// The same generator for an *init* container (an EOF create transaction's or EOFCREATE's
/// code): RETURN/STOP are not allowed there, the program ends in RETURNCONTRACT of a small
/// runtime container (the last sub-container).
pub fn gen_eof_init_program(rng: &mut Rng, ctx: &GenCtx, n: usize) -> Bytes {
    gen_eof_program_kind(rng, ctx, n, true)
}

fn gen_eof_program_kind(rng: &mut Rng, ctx: &GenCtx, n: usize, init: bool) -> Bytes {
    let mut a = Asm::new();
    let mut max_stack: u16 = 1;
    let mut uses_sub = false;
    let init_fails = rng.chance(1, 4);
    for i in 0..n {
        let mut b = Asm::new();
        let k = *rng.pick(&ctx.slots);
        let addr = if ctx.addr_pool.is_empty() { Address::ZERO } else { *rng.pick(&ctx.addr_pool) };
        let mut term = false;
        let mut height: u16 = 2;
        match rng.below(17) {
            14 | 15 => {
                // RJUMPV over a sled of NOPs: every table entry and the fall-through land on
                // stack-neutral, reachable code. The case operand is small, just past the
                // table, huge (>= 2^63, >= 2^64), or a calldata word.
                let max_index = *rng.pick(&[0u8, 1, 2, 7]);
                match rng.below(6) {
                    0 => b.push_u(rng.below(max_index as u64 + 3)),
                    1 => b.push(U256::from(1u64) << 63),
                    2 => b.push(U256::from(u64::MAX - rng.below(3))),
                    3 => b.push(U256::MAX - U256::from(rng.below(3))),
                    4 => b.push(U256::from_be_bytes::<32>(rng.bytes(32).try_into().unwrap())),
                    _ => b.push_u(rng.below(4)).op(CALLDATALOAD),
                };
                b.op(0xe2).raw(&[max_index]);
                for j in 0..=max_index as u16 {
                    b.raw(&j.to_be_bytes());
                }
                for _ in 0..=max_index {
                    b.op(0x5b);
                }
                height = 1;
            }
            0 | 1 => {
                b.push_u(rng.below(4)).push(k).op(SSTORE);
            }
            2 => {
                b.push(k).op(SLOAD).op(POP);
            }
            3 => {
                b.push_u(rng.below(3)).push(k).op(TSTORE);
            }
            4 => {
                let t = rng.below(3) as u8;
                for j in 0..t {
                    b.push_u(j as u64 + 1);
                }
                b.push_u(small_len(rng)).push_u(small_mem_off(rng)).op(LOG0 + t);
                height = t as u16 + 2;
            }
            5 => {
                b.push(U256::from(rng.next_u64())).push_u(small_mem_off(rng)).op(MSTORE);
            }
            6 => {
                b.push_addr(addr).op(BALANCE).op(POP);
                height = 1;
            }
            7 | 8 | 9 if !ctx.callees.is_empty() => {
                let target = *rng.pick(&ctx.callees);
                let shift = 1 + rng.below(3);
                b.op(CALLDATASIZE).push_u(shift).push_u(128).op(CALLDATACOPY);
                b.push(call_value(rng, ctx)).op(CALLDATASIZE).push_u(128).push_addr(target).op(EXTCALL).op(POP);
                height = 4;
            }
            10 if !ctx.callees.is_empty() => {
                let target = *rng.pick(&ctx.callees);
                b.op(CALLDATASIZE).push_u(1).push_u(128).op(CALLDATACOPY);
                b.op(CALLDATASIZE).push_u(128).push_addr(target).op(EXTDELEGATECALL).op(POP);
                height = 3;
            }
            11 if !ctx.callees.is_empty() => {
                let target = *rng.pick(&ctx.callees);
                b.op(CALLDATASIZE).push_u(1).push_u(128).op(CALLDATACOPY);
                b.op(CALLDATASIZE).push_u(128).push_addr(target).op(EXTSTATICCALL).op(POP);
                height = 3;
            }
            12 => {
                b.push_u(rng.below(40)).op(RETURNDATALOAD).op(POP);
                b.op(RETURNDATASIZE).op(POP);
                height = 1;
            }
            13 => {
                // EOFCREATE of sub-container 0 (data_size, data_offset, salt, value)
                uses_sub = true;
                b.push_u(0).push_u(0).push(*rng.pick(&ctx.salts)).push(call_value(rng, ctx)).op(0xec).raw(&[0]).op(POP);
                height = 4;
            }
            _ => {
                term = true;
                match rng.below(3) {
                    0 if !init => {
                        b.push_u(small_len(rng)).push_u(small_mem_off(rng)).op(RETURN);
                    }
                    1 => {
                        b.push_u(small_len(rng)).push_u(small_mem_off(rng)).op(REVERT);
                    }
                    _ => {
                        b.op(INVALID);
                    }
                }
            }
        }
        // CALLDATACOPY needs three operands on the stack
        max_stack = max_stack.max(height).max(3);
        if term || rng.below(100) < ctx.guard_pct {
            // if calldata[i] == 0 skip the body (relative jump over it)
            a.op(PUSH1).raw(&[i as u8]).op(CALLDATALOAD).op(PUSH1).raw(&[0]).op(BYTE).op(ISZERO);
            a.op(RJUMPI).raw(&(b.len() as u16).to_be_bytes());
            max_stack = max_stack.max(2);
        }
        a.raw(&b.code);
    }
    let _ = max_stack;
    // the declared maximal stack height must be exact: measure it on the produced code
    let mut subs = if uses_sub { vec![eof_init_container(init_fails)] } else { vec![] };
    if init {
        // aux data size, aux data offset, RETURNCONTRACT <runtime>
        a.push_u(0).push_u(0).op(0xee).raw(&[subs.len() as u8]);
        subs.push(eof_container(&[STOP], 0));
    } else {
        a.op(STOP);
    }
    eof_container_with(&a.code, eof_max_stack(&a.code), &subs)
}

/// Exact maximal stack height of straight-line EOF code whose only jumps are forward
/// RJUMPIs over stack-neutral bodies (what `gen_eof_program` emits).
pub fn eof_max_stack(code: &[u8]) -> u16 {
    let mut h: i32 = 0;
    let mut max: i32 = 0;
    let mut i = 0;
    while i < code.len() {
        let op = code[i];
        let Some(info) = crate::itp::opcode::OPCODE_INFO_JUMPTABLE[op as usize] else { break };
        h -= info.inputs() as i32;
        h += info.outputs() as i32;
        max = max.max(h);
        if op == 0xe2 {
            // RJUMPV: max_index byte + (max_index + 1) two-byte offsets
            i += 2 + (code.get(i + 1).copied().unwrap_or(0) as usize + 1) * 2;
            continue;
        }
        i += 1 + info.immediate_size() as usize;
    }
    max.max(0) as u16
}
