//! The ADT and interpreter engines of the simulator compiled against `revm-interpreter`
//! alone, to be run under Miri (`cargo +nightly miri run -- <seed> <n>`): the deterministic
//! executor for the memory-safety half of C25 (and the unsafe code behind C11/C12).
#[path = "../../sim/src/core.rs"]
mod core;
#[path = "../../sim/src/asm.rs"]
mod asm;
#[path = "../../sim/src/e4_adt.rs"]
mod e4_adt;
#[path = "../../sim/src/e5_interp.rs"]
mod e5_interp;
mod eof_corpus;
pub use revm_interpreter as itp;

use crate::core::{run_seed, Engine, Rng, Stats};

fn hex(s: &str) -> Vec<u8> {
    (0..s.len()).step_by(2).map(|i| u8::from_str_radix(&s[i..i + 2], 16).unwrap()).collect()
}

fn batch<E: Engine>(e: &E, seed: u64, n: u64) -> (u64, u64) {
    let mut violations = 0;
    let mut stats = Stats::default();
    for i in 0..n {
        let mut rng = Rng::new(run_seed(seed, &e.label(), i));
        let case = e.generate(&mut rng);
        let v = e.execute(&case, &mut stats);
        if !v.is_empty() {
            violations += 1;
            println!("MIRI-VIOLATION engine={} run={} {}", e.label(), i, v[0].message);
        }
    }
    (n, violations)
}

fn main() {
    let args: Vec<String> = std::env::args().collect();
    let seed: u64 = args.get(1).and_then(|s| s.parse().ok()).unwrap_or(20260921);
    let n: u64 = args.get(2).and_then(|s| s.parse().ok()).unwrap_or(16);
    let corpus: Vec<itp::primitives::Bytes> = eof_corpus::EOF_CORPUS.iter().map(|s| itp::primitives::Bytes::from(hex(s))).collect();
    let mut total = 0;
    let mut bad = 0;
    for (t, b) in [
        batch(&e5_interp::InterpSim { eof_corpus: std::sync::Arc::new(corpus) }, seed, n),
        batch(&e4_adt::AdtSim { focus: "C12".into() }, seed, n / 2),
        batch(&e4_adt::AdtSim { focus: "C11".into() }, seed, n / 2),
        batch(&e4_adt::AdtSim { focus: "C13".into() }, seed, n / 4),
    ] {
        total += t;
        bad += b;
    }
    println!("MIRI-DONE cases={total} violations={bad} seed={seed}");
    if bad > 0 {
        std::process::exit(1);
    }
}
