#!/bin/bash
# tools/determinism.sh [scale]: every engine twice in separate processes with 1 and 16
# workers and two seeds; the evidence (minus wall-clock fields) must be byte-identical.
cd "$(dirname "$0")/.."
SCALE="${1:-0.02}"
strip() { jq -S 'del(.wall_s) | del(.coverage.runs_per_hour) | del(.coverage.batches[].wall_s) | del(.coverage.batches[].runs_per_hour) | del(.coverage.miri)' "$1"; }
fail=0
for id in C02 C06 C07 C08 C11 C12 C13 C15 C20 C21 C25 C28 C29 C31 C34; do
  for seed in 1 77; do
    VERIF_ROOT=/tmp/det_a VERIF_SEED=$seed VERIF_SCALE=$SCALE VERIF_WORKERS=1 ./sim/target/release/vsim check $id quick >/dev/null 2>&1
    VERIF_ROOT=/tmp/det_b VERIF_SEED=$seed VERIF_SCALE=$SCALE VERIF_WORKERS=16 ./sim/target/release/vsim check $id quick >/dev/null 2>&1
    if diff <(strip /tmp/det_a/evidence/$id.json) <(strip /tmp/det_b/evidence/$id.json) >/dev/null; then echo "ok   $id seed=$seed"; else echo "DIFF $id seed=$seed"; fail=1; fi
  done
done
rm -rf /tmp/det_a /tmp/det_b
exit $fail
