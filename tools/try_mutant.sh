#!/bin/bash
# tools/try_mutant.sh <patch.diff> <ID> [<ID> ...]
# Applies a seeded change to /repo, runs the quick checks of the given properties, and
# restores /repo. Prints rc and the VIOLATION lines of each check.
set -u
P="$(realpath "$1")"; shift
cd /repo || exit 2
if [ -n "$(git status --porcelain -- crates bins)" ]; then echo "/repo is not clean"; exit 2; fi
git apply "$P" || { echo "patch does not apply"; exit 2; }
trap 'git -C /repo checkout -- . ' EXIT
cd /verif
for id in "$@"; do
  out=$(VERIF_ROOT_REPLAYS=1 ./check "$id" "${TIER:-quick}" 2>&1); rc=$?
  echo "== $id rc=$rc $(echo "$out" | grep -E "^$id (quick|thorough):" | tail -1)"
  echo "$out" | grep -E "^(VIOLATION|  oracle=|HARNESS-ERROR)" | head -6 | cut -c1-220
done
