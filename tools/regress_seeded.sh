#!/bin/bash
# tools/regress_seeded.sh <slot> <seeded-id> ...
# Re-runs, for each kept seeded change, the quick check of the property it was written
# against (isolated worktree, VERIF_SEED from the environment, default 1) and appends one
# line per change to seeded/REGRESSION-<slot>.txt: "<id> <PROP> caught|MISSED <summary>".
cd "$(dirname "$0")/.."
SLOT="$1"; shift
export VERIF_SEED="${VERIF_SEED:-1}"
for id in "$@"; do
  prop=$(python3 -c "import json; print(json.load(open('seeded/$id/meta.json'))['breaks_property'])")
  out=$(tools/try_mutant_iso.sh -n "$SLOT" seeded/$id/patch.diff $prop 2>&1)
  line=$(echo "$out" | grep -E "^== " | head -1)
  if echo "$line" | grep -q "rc=1"; then res=caught; else res=MISSED; fi
  first=$(echo "$out" | grep -E "^  oracle=" | head -1 | cut -c1-120)
  echo "$id $prop $res seed=$VERIF_SEED $(echo "$line" | sed -E 's/^== C[0-9]+ rc=[0-9]+ //' | cut -c1-110) |$first" >> seeded/REGRESSION-$SLOT.txt
done
echo "DONE slot $SLOT" >> seeded/REGRESSION-$SLOT.txt
