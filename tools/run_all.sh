#!/bin/bash
# runs every claimed check at the given tier (default quick) and prints one line each
cd "$(dirname "$0")/.."
TIER="${1:-quick}"
for id in $(python3 -c "import json; print(' '.join(c['property_id'] for c in json.load(open('MANIFEST.json'))['checks']))"); do
  out=$(./check "$id" "$TIER" 2>&1); rc=$?
  echo "rc=$rc $(echo "$out" | grep -E "^$id $TIER:" | tail -1)"
  echo "$out" | grep -E "^(VIOLATION|HARNESS-ERROR|KNOWN-FINDING)" | cut -c1-160
done
