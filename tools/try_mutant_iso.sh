#!/bin/bash
# tools/try_mutant_iso.sh [-n <slot>] <patch.diff> <ID> [<ID> ...]
# Like try_mutant.sh, but isolated: the change is applied to a scratch worktree of /repo
# (/tmp/iso<slot>-repo) and the checks run from a snapshot of /verif (/tmp/iso<slot>-verif)
# whose simulator crates path-depend on that worktree. /repo and /verif are never touched,
# so development can go on (and several slots can run side by side) while mutants are tried.
# The registered checks themselves always run from /verif against /repo.
set -u
SLOT=0
if [ "$1" = "-n" ]; then SLOT="$2"; shift 2; fi
P="$(realpath "$1")"; shift
WT=/tmp/iso$SLOT-repo; SNAP=/tmp/iso$SLOT-verif
if [ ! -d "$WT" ]; then git -C /repo worktree add --detach "$WT" HEAD >/dev/null 2>&1 || { echo "cannot create $WT"; exit 2; }; fi
git -C "$WT" checkout -q --detach "$(git -C /repo rev-parse HEAD)" 2>/dev/null
git -C "$WT" checkout -q -- . && git -C "$WT" clean -fdq -- crates bins
mkdir -p "$SNAP"
rsync -a --delete --exclude 'sim/target' --exclude 'sim/target-op' --exclude 'interp-miri/target' --exclude 'replays' --exclude '.git' /verif/ "$SNAP/"
sed -i "s#/repo/#$WT/#g" "$SNAP/sim/Cargo.toml" "$SNAP/interp-miri/Cargo.toml"
git -C "$WT" apply "$P" || { echo "patch does not apply"; exit 2; }
cd "$SNAP"; export VERIF_ROOT="$SNAP"
for id in "$@"; do
  out=$(VERIF_ROOT_REPLAYS=1 ./check "$id" "${TIER:-quick}" 2>&1); rc=$?
  echo "== $id rc=$rc $(echo "$out" | grep -E "^$id (quick|thorough):" | tail -1)"
  echo "$out" | grep -E "^(VIOLATION|  oracle=|HARNESS-ERROR)" | head -6 | cut -c1-260
done
git -C "$WT" checkout -q -- .
