#!/usr/bin/env python3
"""Generates /verif/MANIFEST.json from the tables below (single source of truth)."""
import json, os, subprocess
ROOT = os.path.dirname(os.path.dirname(os.path.abspath(__file__)))

NA = {
 "C01": "pure function of (pre-state, env, tx, spec) judged against the external execution specification: no seam, fault, schedule or history enters the statement; deciding it needs an independent reference EVM (differential testing), not simulation",
 "C03": "single-shot pure 256-bit functions of their operands; no state, schedule or fault to simulate",
 "C04": "pure function of (code bytes, jump target); no state, schedule or fault to simulate",
 "C05": "finite static table (256 opcodes x SpecId, precompile addresses x SpecId): enumeration against a hand-written table, not simulation",
 "C14": "pure integer formulas of their arguments; no state, schedule or fault to simulate",
 "C23": "pure functions of (input bytes, gas limit); needs independent cryptographic reference implementations",
 "C24": "cross-build differential of pure functions (two cargo feature sets); no schedule or fault",
 "C26": "pure decode/encode/validate functions of a byte string",
 "C27": "pure accessors over a byte string",
 "C32": "pure integer functions",
}

# id -> (engine, level category, text, note, technique, design_ref)
CHECKS = {
 "C06": ("journalsim", "exploration",
   "Seeded operation histories (5-60 ops, nesting <= 8, 11 specs, balances up to 2^256-1) drive the real JournaledState over a fault-injecting database; after every checkpoint_revert the full observable projection must equal the snapshot taken at the checkpoint, after every checkpoint_commit only the depth may change, and a failed create_account_checkpoint must leave no trace. 200k histories quick / 10M thorough; sampling, not proof.",
   "Trusted: SimDisk/FaultyDb stubs, the projection (absent == cold + database value), API preconditions the EVM itself respects. Database faults (F1) are injected inside transfer/selfdestruct/sload/sstore/load_code; histories continue after the error and later reverts must still restore.",
   "deterministic simulation: seeded operation histories + injected database faults against a snapshot-stack reference model", "5 C06"),
}


E1_NOTE = "Trusted: SimDisk/FaultyDb stubs, the monitor inspector (reads only the journaled state), the seeded program generator; injected inspector outcomes are legal ones. Sampling of programs/histories/fault points, not proof; reach is reported as probes in the evidence."
E1_TECH = "deterministic simulation: seeded worlds and transaction histories on one live Evm, monitor inspector invariants, injected database faults / out-of-gas points / inspector short-circuits"
CHECKS.update({
 "C07": ("txsim", "exploration", "Seeded transactions whose contracts perform sibling calls/creates hitting the early-return and failure exits of frame creation and return; at every call/create hook the journal depth is recorded and must be the same at the matching end hook (0 at transaction end); each history ends with a driver that, after 0-12 sibling calls/creates, probes maximal depth with a self-recursive contract and must report exactly 1023 nested levels below the driver.", E1_NOTE, E1_TECH, "5 C07"),
 "C08": ("txsim", "exploration", "Per committed transaction, 512-bit sums over every address of the world plus every address of the returned state: total after = total before - base fee burn - blob fee - balances of deleted accounts - ether burned by completed self-destructs naming the contract itself. Worlds include balances near 2^256, value-bearing calls/creates that fail (out-of-gas points, overflow, insufficient funds), self-destructs; failed frames are additionally compared with frame-level snapshots.", E1_NOTE + " Known findings D7a/D7b (total supply above 2^256) are listed in known_findings.json.", E1_TECH, "5 C08"),
 "C09": ("txsim", "exploration", "Per executed transaction: intrinsic <= gas spent <= limit, floor <= used (Prague), refund cap /2 or /5, halt uses the whole limit, exact reconstruction of gas used/refunded from the top frame's gas as seen by the monitor, sender debit = price x used + blob fee (+ value) and beneficiary credit = (price - base fee) x used, read back from the committed state. Intrinsic/floor/fee formulas are the simulator's own, written from the EIPs.", E1_NOTE + " 'intrinsic <= gas used' is read on gas spent before refunds (pre-London a correct execution can report less after refunds); set-code (EIP-7702) transactions are exempt from the halt/intrinsic rules because the specification grants the authority refund whatever the outcome; payment equations are evaluated only when no other ether flow touched the party.", E1_TECH, "5 C09"),
 "C10": ("txsim", "exploration", "Per step: a state-changing opcode (SSTORE, TSTORE, LOGn, CREATE, CREATE2, SELFDESTRUCT, CALL with value) attempted while the interpreter is static must end in an error result; per frame: a snapshot of balances, nonces, code, storage, transient storage, logs and created/destroyed flags taken at the hook of every outermost static frame must be unchanged at its end; static mode must be inherited by every nested frame.", E1_NOTE, E1_TECH, "5 C10"),
 "C11": ("txsim", "exploration", "The monitor copies the parent's memory when it issues a call/create and compares it byte for byte at the parent's next instruction: equal except the first min(out_len, returndata) bytes of the return window, same length; every frame's first instruction sees empty memory. Children are killed by out-of-gas at arbitrary points and replaced by inspector short-circuits.", E1_NOTE + " The API-level model of SharedMemory (E4) is not built yet.", E1_TECH, "5 C11"),
 "C29": ("txsim", "exploration", "History check over the callback stream of the real inspector plumbing: every call/create/eofcreate notification is matched LIFO by exactly one end notification with identical inputs (including rejected, precompile, depth-limit and short-circuited frames), every step has exactly one step_end before anything else happens, every LOG that continues is followed by exactly one log notification carrying the last journaled log, nothing is left open at transaction end, and a transaction after an aborted one parses from a clean start.", E1_NOTE, E1_TECH, "5 C29"),
 "C30": ("txsim", "exploration", "At every SELFDESTRUCT step the monitor notes the executing contract, the beneficiary on the stack and the contract's balance; if the instruction completes exactly one notification with those operands must follow, otherwise none; notifications after any other instruction are violations. Worlds bias self-destructs to self/other/new accounts, with and without balance, created in the same transaction or not, before and after Cancun, preceded by value-bearing calls.", E1_NOTE + " For a Cancun self-targeting self-destruct of a pre-existing contract nothing leaves the contract: the reported value must be 0; in every other case it must be the contract's balance.", E1_TECH, "5 C30"),
 "C34": ("txsim", "exploration", "An executable access-set model (EIP-2929/2930/3651/7702, nested rollback) predicts cold/warm for every SLOAD, SSTORE, BALANCE, EXTCODESIZE, EXTCODEHASH, EXTCODECOPY, CALL-family and SELFDESTRUCT step; the monitor compares it with the status revm applied (a cold load is journaled) and with the exact gas of SLOAD/BALANCE/EXTCODESIZE/EXTCODEHASH/SSTORE; the JournaledState API is checked the same way under nested checkpoint reverts (E2).", E1_NOTE + " Composite prices (CALL, EXTCODECOPY, SELFDESTRUCT) are checked through the applied status only; SSTORE through revm's own formula evaluated with the model's cold bit.", E1_TECH, "5 C34"),
})

TWIN_TECH = "deterministic simulation: twin execution of one seeded history on two differently built systems, with injected database faults"
CHECKS.update({
 "C02": ("validsim", "exploration", "Boundary-biased transaction fields (gas limit around intrinsic/floor/block limit, fees around the base fee, nonce, value around the balance, overflowing products, sender with code or delegation, initcode size, blob counts/versions/prices, authorization lists, access lists, chain id, missing header fields) in histories of 1-10 transactions on one Evm. Oracle 1: an executable validity predicate written from the EIPs must agree on accept / reject-transaction / reject-header. Oracle 2: the history without the rejected transactions, run on a second system, gives equal results and an equal final state; the state is also compared around every rejected transaction. Database faults during validation must surface as errors and leave no trace.", E1_NOTE + " Only the class of a rejection is compared (several rules can fail at once).", "deterministic simulation: seeded boundary-value histories against an executable validity model + twin history without the rejected transactions + injected database faults", "5 C02"),
 "C21": ("collidesim", "exploration", "Collision matrix sampled per run: target pre-state {absent, code, nonce, storage only, balance only, nonce+storage} x eleven layer stacks incl. CacheDB<EmptyDB> / State<EmptyDB> (and storage inserted into a CacheDB) x {CREATE, CREATE2, create transaction, EOFCREATE, EOF create transaction (the two EOF kinds under OSAKA)} x spec x {target untouched, read, or read and paid one wei by an earlier committed transaction}. Collision must occur exactly when the reference target has code, nonce or storage; on collision the create returns 0 / the transaction halts with CreateCollision, the forwarded gas is consumed, the target is unchanged and the creator's nonce is bumped; otherwise the contract is deployed over the kept balance.", E1_NOTE, "deterministic simulation: seeded configuration matrix over layer stacks (F7) with a reference collision predicate", "5 C21"),
 "C22": ("twinsim", "exploration", "A reward-off Evm and a reward-on twin run the same history of transactions interleaved with modify_spec_id, with_spec_id, append/pop handler register and modify().build() (half of the reward-off systems carry no inspector, so that popping empties the register list); after the history the reward-off beneficiary must be unchanged, the reward-on beneficiary must have gained exactly the sum of (price - base fee) x gas used, every result must be equal and every other account equal.", E1_NOTE + " Histories in which the beneficiary is a party of a transaction are not compared; no database faults (the twins issue different database calls).", TWIN_TECH, "5 C22"),
 "C28": ("twinsim", "exploration", "Every generated history runs on a system without inspector and on a twin with NoOpInspector, GasInspector, TracerEip3155 or the monitor registered through inspector_handle_register; ExecutionResult (class, reason, gas used, refunded, output, logs), the returned EvmState (every field) and the final committed state must be equal; database faults use the identical call-index schedule on both twins (evaluated when both issue the same database calls).", E1_NOTE, TWIN_TECH, "5 C28"),
 "C31": ("twinsim", "fault_enumeration", "System A is one Evm reused for the whole history (valid, rejected, reverting, halting transactions through transact / transact_commit / preverify_transaction / transact_preverified, transact without commit, spec changes, block advances); system B takes its database out of the Evm and builds a brand-new Evm around it before every op. Results, returned states and the final committed state must be equal. Database faults are injected at drawn call indices and, for marked ops, enumerated over every database call index of the op (the whole history is re-run once per index).", E1_NOTE + " Enumeration is capped at 48 call indices per marked op.", TWIN_TECH + "; fault enumeration over every database call index of marked ops", "5 C31"),
})


E3_NOTE = "Trusted: SimDisk/FaultyDb, the reference appliers (apply_evm_state, apply_changeset, undo_group: ~150 lines), normalisation of plain state (zero slots dropped; with state clear an empty account without storage equals no account). Histories are real EVM output. Known findings D12 (codeless nonce-0 accounts with storage) and D13 (revert over a destroying group with OriginalValuesKnown::Yes) are listed in known_findings.json."
E3_TECH = "deterministic simulation: seeded block histories through State/BundleState over a simulated disk with scheduled merges, flushes, crashes/restarts and injected database faults, against a reference plain state"
CHECKS.update({
 "C15": ("statesim", "exploration", "After every transition group every account, slot and code of the universe read through the State must equal the reference plain state that received the same committed EvmStates (independent applier), under both state-clear settings, with increment_balances/drain_balances between transactions, lazy code and empty-as-None database answers; the same transactions on Evm<CacheDB> must give equal execution results. Database faults hit transactions (retried) and increment_balances (failed calls must leave no trace); crashes drop the State, which is rebuilt over the durable disk.", E3_NOTE, E3_TECH, "5 C15"),
 "C16": ("statesim", "exploration", "At every flush point (scheduled take_bundle; several per history) pre-state + to_plain_state(OriginalValuesKnown::Yes) and + to_plain_state(No) applied by an independent applier must both equal the reference post-state; the changeset then becomes durable and the State continues on top of it; after a crash the lost groups are re-executed over the durable disk and must give the same results.", E3_NOTE, E3_TECH, "5 C16"),
 "C17": ("statesim", "exploration", "With one merge per group, the plain reverts are applied backwards group by group from the post-state (wiped: unlisted slots come back from the pre-bundle disk; otherwise unchanged; None: delete) and must reproduce the recorded reference snapshot before every group; bundle.revert(j) followed by to_plain_state (Yes and No) must describe the snapshot after n-j groups for every j, including j > n.", E3_NOTE, E3_TECH, "5 C17"),
 "C18": ("statesim", "exploration", "For a drawn split point i (including 0 and n) bundle A is built over the pre-state, flushed, bundle B built by a fresh State over the flushed disk, and A.extend(B) must give the post-state changeset and a revert walk that reproduces every snapshot; take_n_reverts(m) on the monolithic bundle must return exactly the first m groups (walk with the rest from S_n to S_m, then with the detached ones to S_0); B.prepend_state(A) must still describe the post-state (newer values survive).", E3_NOTE, E3_TECH, "5 C18"),
 "C19": ("statesim", "exploration", "A State over the pre-state disk with bundle A preloaded (with_bundle_prestate) and a State over the disk with A's changeset applied must answer every read equally, give equal execution results for the remaining groups, and both final changesets must lead to the reference post-state. A comes from the simulated history (destroyed, re-created, in-memory accounts), not from hand-written data.", E3_NOTE, E3_TECH, "5 C19"),
})


E4_NOTE = "No environment fault, schedule or interleaving exists at this surface; what is used from deterministic simulation is the reference-model oracle over seeded operation histories with shrinking and replay (model conformance only). API preconditions are respected. The same histories also run under Miri (interp-miri/) as part of the C25 check."
CHECKS.update({
 "C12": ("adtsim", "exploration", "Seeded histories of push, push_b256, pop, peek, dup, swap, exchange, push_slice (lengths 0..1024*32+64, biased to word boundaries and to the 1024 limit) and set on the real Stack against a Vec<U256> model: equal contents after every operation, underflow/overflow reported exactly when the model says so, and a failed operation leaves the stack unchanged. One case in four is a program of stack instructions only (PUSH0, PUSH1-32 incl. a final PUSHn cut short by the end of the code, POP, DUP1-16, SWAP1-16 and, in an EOF container, DUPN / SWAPN / EXCHANGE with boundary immediates; up to 1100 instructions) executed by the real interpreter loop with the real instruction table under a gas limit that lands the out-of-gas on an arbitrary instruction; final stack, result and gas meter must equal the list model.", E4_NOTE + " push_slice: the last short word is read as the big-endian number of the remaining bytes (unused high-order bytes zero), which is what the shipped unit test pins and PUSHn needs.", "deterministic simulation family used for model conformance: seeded operation histories against a sequential reference model (no fault dimension exists)", "5 C12"),
 "C13": ("adtsim", "exploration", "Seeded histories of record_cost (incl. 0, remaining, remaining+1, u64::MAX), erase_cost of gas charged before, record_refund +/-, set_refund, set_final_refund (London / pre-London) and spend_all on the real Gas meter with limits 0, small, large and u64::MAX against three integers: remaining <= limit, failed charge changes nothing, successful charge reduces remaining by exactly the cost, spent = limit - remaining, final refund = min(refund, spent/q). One case in four is a program of stack instructions run by the real interpreter loop whose gas limit is drawn inside the program's total cost (F2): the charge that fails must leave meter and stack as they were, every successful charge is exactly the instruction's cost. Frame accounting by real code (E1): whole transactions with out-of-gas points, database faults and inspector short-circuits, where the monitor checks at every instruction that remaining <= limit and that remaining never grows inside a frame, and at every frame end that no more gas comes back than the frame was given.", E4_NOTE + " In the program cases the out-of-gas point is the one fault this surface has; the E1 part runs with F1/F2/F3.", "deterministic simulation family used for model conformance: seeded operation histories against a sequential reference model (no fault dimension exists)", "5 C12/C13"),
 "C25": ("interpsim+txsim+miri", "exploration", "E5: the interpreter alone on random byte strings, generated and byte-mutated programs and every shipped EOF container (and mutated copies) that revm's validation accepts, across calldata, gas limits 0..1M, 13 specs and the static flag, with a simulated Host failing at a drawn host-call index and a simulated caller answering every CALL/CREATE/EOFCREATE with a drawn legal outcome; invariants: no panic (debug assertions, overflow checks and revm's assume!/debug_unreachable! are live), the guarded instruction-pointer and free_context hooks never fire, remaining gas <= limit, stack <= 1024, at most gas_limit+2 steps (bounded liveness), a defined final result, FatalExternalError after a failed host call. E1: every monitor oracle on; any panic inside revm during a whole transaction, including under database faults at drawn call indices and inspector short-circuits, is a C25 violation. Miri: the same E5/E4 engines run under cargo miri (4 shards quick, 16 thorough) for undefined behaviour in stack.rs, shared_memory.rs, push, jumps, analysis.", "Trusted: SimHost, the simulated caller, the program generator, Miri. The C libraries and the full Evm cannot run under Miri: memory-safety evidence is limited to the interpreter crate with a simulated host. The input-space half of the property is ordinary seeded generation; what simulation adds is the fault dimension, the hooks as run-time invariants, the deterministic UB executor and the step bound.", "deterministic simulation: seeded programs x host-failure index x simulated sub-call outcomes with hook invariants and a step bound; Miri as deterministic executor for undefined behaviour", "5 C25"),
})
CHECKS["C11"] = ("txsim+adtsim",) + CHECKS["C11"][1:3] + ("Trusted: as for the other monitor-mode checks, plus the Vec<Vec<u8>> model of SharedMemory contexts (E4: new_context/free_context/resize_memory/set*/copy/slice histories; growth must cost 3w + w^2/512 and fail without change when gas is short).",) + CHECKS["C11"][4:]


CHECKS.update({
 "C20": ("wrapsim", "fault_enumeration", "Twelve wrapper stacks (CacheDB, State, State+bundle, WrapDatabaseRef, WrapDatabaseRef<CacheDB>, CacheDB<CacheDB>, State<CacheDB>, Box<State<Box>>, DatabaseComponents<Arc,Arc>, CacheDB<DatabaseComponents> over the simulated disk, and CacheDB<EmptyDB> / State<EmptyDB> holding the world themselves, loaded through the insert API) answer sequences of basic / code_by_hash / storage / block_hash (around the 256-block window, far past, future) / has_storage queries issued directly, through `&mut DB`, through a boxed `&mut dyn Database` and through the `_ref` forms, interleaved with real transactions committed through the stack, block-number jumps and (CacheDB on top) insert_account_storage / replace_account_storage / insert_account_info calls; on CacheDB-topped stacks storage and has_storage are also asked cold (account not loaded first), for every account kind with a bias to accounts that exist but are empty; every answer must equal the reference (disk + committed changes). A database fault at each bottom-level call index of a query (0..2: a query makes at most three) must surface as an error, never as a default, and the repeated query must then be right.", "Trusted: SimDisk/FaultyDb (also as StateRef/BlockHashRef components), the reference applier. An existing empty account and a missing account are the same answer once state clearing is active; code may be handed out lazily. Known finding D14 (has_storage cannot see that committed changes zeroed every slot below) is listed in known_findings.json.", "deterministic simulation: seeded query/commit histories over wrapper stacks with a database fault at every bottom-level call index of a query", "5 C20"),
 "C33": ("opsim", "exploration", "Optimism build: regular, deposit and pre-Regolith system transactions with random enveloped bytes over BEDROCK..ISTHMUS and L1-block storage in all layouts (incl. non-zero operator fee scalar/constant). Regular: sender debit = value + beneficiary + base-fee vault + L1 vault + operator vault credits exactly; L1 vault credit = calculate_tx_l1_cost(enveloped) of the public helper; base-fee vault = base fee x gas used. Deposits: total supply grows by exactly the mint; a deposit that reverts or halts at an arbitrary point (low gas limits) persists exactly mint and nonce bump. Database faults at drawn call indices (L1 block info reads, failed-deposit path) must abort without a fabricated state.", E1_NOTE + " Balances stay below 2^128; programs move no ether themselves; deposits that cannot start (gas limit below intrinsic) are not generated.", "deterministic simulation: seeded Optimism transaction histories with out-of-gas points and injected database faults, five-party conservation invariant", "5 C33"),
})

CHECKS["C06"] = ("journalsim+txsim",) + CHECKS["C06"][1:]
CHECKS["C13"] = ("adtsim+txsim",) + CHECKS["C13"][1:]

ENGINES = [
 {"name": "wrapsim", "path": "sim/src/e3_wrap.rs", "serves_properties": ["C20"], "kind_free_text": "E3 wrappers mode: query/commit histories over wrapper stacks with per-call fault enumeration"},
 {"name": "opsim", "path": "sim/src/op_sim.rs", "serves_properties": ["C33"], "kind_free_text": "Optimism build (target-op): fee conservation and deposit persistence"},
 {"name": "adtsim", "path": "sim/src/e4_adt.rs", "serves_properties": ["C11","C12","C13"], "kind_free_text": "E4: Stack / SharedMemory / Gas model conformance under seeded histories (also under Miri)"},
 {"name": "interpsim", "path": "sim/src/e5_interp.rs", "serves_properties": ["C25"], "kind_free_text": "E5: interpreter + simulated Host failing on schedule; native and under Miri (interp-miri/)"},
 {"name": "statesim", "path": "sim/src/e3_state.rs", "serves_properties": ["C15","C16","C17","C18","C19"], "kind_free_text": "E3: State/BundleState pipeline over a simulated disk with merge/flush/crash schedule"},
 {"name": "twinsim", "path": "sim/src/e1_twin.rs", "serves_properties": ["C22","C28","C31"], "kind_free_text": "E1 twin modes: same history on two differently built systems"},
 {"name": "validsim", "path": "sim/src/e1_valid.rs", "serves_properties": ["C02"], "kind_free_text": "E1 validity mode: boundary-value transactions vs executable validity model, no-trace twin"},
 {"name": "collidesim", "path": "sim/src/e1_collide.rs", "serves_properties": ["C21"], "kind_free_text": "E1 collision matrix over layer stacks"},
 {"name": "txsim", "path": "sim/src/e1_tx.rs", "serves_properties": ["C06","C07","C08","C09","C10","C11","C13","C25","C29","C30","C34"], "kind_free_text": "E1 monitor mode: whole transactions on a live Evm with the monitor inspector, F1/F2/F3 faults"},
 {"name": "journalsim", "path": "sim/src/e2_journal.rs", "serves_properties": ["C06", "C34"], "kind_free_text": "E2: JournaledState API histories over FaultyDb, snapshot-stack reference model"},
]

def main():
    commits = []
    try:
        out = subprocess.run(["git", "-C", "/repo", "log", "--format=%h %s"], capture_output=True, text=True).stdout
        commits = [l.split()[0] for l in out.splitlines() if l.split(" ", 1)[1].startswith("verif-hook:")]
    except Exception:
        pass
    checks = []
    for pid in sorted(CHECKS):
        eng, cat, text, note, tech, ref = CHECKS[pid]
        checks.append({
            "property_id": pid,
            "quick_cmd": f"./check {pid} quick",
            "thorough_cmd": f"./check {pid} thorough",
            "evidence_file": f"/verif/evidence/{pid}.json",
            "replay_cmd_template": "./check --replay {path}",
            "engine": eng,
            "level_claimed": {"category": cat, "text": text, "design_ref": f"DESIGN.md section {ref}"},
            "level_note": note,
            "technique": tech,
        })
    claimed = set(CHECKS)
    na = [{"property_id": k, "reason": v} for k, v in sorted(NA.items())]
    # properties neither claimed nor n/a yet: listed as not yet claimed (kept honest while building)
    allp = [json.loads(l)["id"] for l in open(os.path.join(ROOT, "properties.jsonl"))]
    for p in allp:
        if p not in claimed and p not in NA:
            na.append({"property_id": p, "reason": "applicable to deterministic simulation (see DESIGN.md section 5) but its check is not built yet; not claimed"})
    m = {
        "version": 1,
        "setup_cmd": "cd /verif/sim && CARGO_NET_OFFLINE=true cargo build --release --offline && cargo build --release --offline --features optimism --target-dir target-op && cd /verif/interp-miri && (MIRIFLAGS=-Zmiri-permissive-provenance CARGO_NET_OFFLINE=true cargo +nightly miri run --offline -- 0 0 || true)",
        "hooks": {
            "guard": "--cfg risechain_revm_verif",
            "enable": "RUSTFLAGS / .cargo/config.toml of /verif/sim passes --cfg risechain_revm_verif to every crate built from /repo",
            "baseline_off_cmd": "cd /repo && cargo test --workspace --no-fail-fast --offline",
            "source_commits": commits,
            "add_only": True,
        },
        "engines": ENGINES,
        "checks": checks,
        "not_applicable": sorted(na, key=lambda x: x["property_id"]),
        "notes": "One simulator binary (sim/, built against /repo's working tree). ./check <ID> <tier> rebuilds, runs, rewrites evidence/<ID>.json. Exit 0 held, 1 VIOLATION, 2 harness error. Known findings and fixed defects: known_findings.json.",
    }
    json.dump(m, open(os.path.join(ROOT, "MANIFEST.json"), "w"), indent=1)
    print("wrote MANIFEST.json with", len(checks), "checks,", len(na), "not claimed")

if __name__ == "__main__":
    main()
