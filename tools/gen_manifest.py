#!/usr/bin/env python3
"""Generates /verif/MANIFEST.json from the tables below (single source of truth)."""
import json, os, subprocess
ROOT = os.path.dirname(os.path.dirname(os.path.abspath(__file__)))

NA = {
 "C01": "pure function of (pre-state, env, tx, spec) judged against the external execution specification: no seam, fault, schedule or history enters the statement; deciding it needs an independent reference EVM (differential testing), not simulation",
 "C03": "single-shot pure 256-bit functions of their operands; no state, schedule or fault to simulate",
 "C04": "pure function of (code bytes, jump target); no state, schedule or fault to simulate",
 "C05": "finite static table (256 opcodes x SpecId, precompile addresses x SpecId): enumeration against a hand-written table, not simulation",
 "C14": "pure integer formulas of their arguments; no state, schedule or fault to simulate",
 "C23": "pure functions of (input bytes, gas limit); needs independent cryptographic reference implementations",
 "C24": "cross-build differential of pure functions (two cargo feature sets); no schedule or fault",
 "C26": "pure decode/encode/validate functions of a byte string",
 "C27": "pure accessors over a byte string",
 "C32": "pure integer functions",
}

# id -> (engine, level category, text, note, technique, design_ref)
CHECKS = {
 "C06": ("journalsim", "exploration",
   "Seeded operation histories (5-60 ops, nesting <= 8, 11 specs, balances up to 2^256-1) drive the real JournaledState over a fault-injecting database; after every checkpoint_revert the full observable projection must equal the snapshot taken at the checkpoint, after every checkpoint_commit only the depth may change, and a failed create_account_checkpoint must leave no trace. 200k histories quick / 10M thorough; sampling, not proof.",
   "Trusted: SimDisk/FaultyDb stubs, the projection (absent == cold + database value), API preconditions the EVM itself respects. Database faults (F1) are injected inside transfer/selfdestruct/sload/sstore/load_code; histories continue after the error and later reverts must still restore.",
   "deterministic simulation: seeded operation histories + injected database faults against a snapshot-stack reference model", "5 C06"),
}

ENGINES = [
 {"name": "journalsim", "path": "sim/src/e2_journal.rs", "serves_properties": ["C06", "C34"], "kind_free_text": "E2: JournaledState API histories over FaultyDb, snapshot-stack reference model"},
]

def main():
    commits = []
    try:
        out = subprocess.run(["git", "-C", "/repo", "log", "--format=%h %s"], capture_output=True, text=True).stdout
        commits = [l.split()[0] for l in out.splitlines() if l.split(" ", 1)[1].startswith("verif-hook:")]
    except Exception:
        pass
    checks = []
    for pid in sorted(CHECKS):
        eng, cat, text, note, tech, ref = CHECKS[pid]
        checks.append({
            "property_id": pid,
            "quick_cmd": f"./check {pid} quick",
            "thorough_cmd": f"./check {pid} thorough",
            "evidence_file": f"/verif/evidence/{pid}.json",
            "replay_cmd_template": "./check --replay {path}",
            "engine": eng,
            "level_claimed": {"category": cat, "text": text, "design_ref": f"DESIGN.md section {ref}"},
            "level_note": note,
            "technique": tech,
        })
    claimed = set(CHECKS)
    na = [{"property_id": k, "reason": v} for k, v in sorted(NA.items())]
    # properties neither claimed nor n/a yet: listed as not yet claimed (kept honest while building)
    allp = [json.loads(l)["id"] for l in open(os.path.join(ROOT, "properties.jsonl"))]
    for p in allp:
        if p not in claimed and p not in NA:
            na.append({"property_id": p, "reason": "applicable to deterministic simulation (see DESIGN.md section 5) but its check is not built yet; not claimed"})
    m = {
        "version": 1,
        "setup_cmd": "cd /verif/sim && CARGO_NET_OFFLINE=true cargo build --release --offline",
        "hooks": {
            "guard": "--cfg risechain_revm_verif",
            "enable": "RUSTFLAGS / .cargo/config.toml of /verif/sim passes --cfg risechain_revm_verif to every crate built from /repo",
            "baseline_off_cmd": "cd /repo && cargo test --workspace --no-fail-fast --offline",
            "source_commits": commits,
            "add_only": True,
        },
        "engines": ENGINES,
        "checks": checks,
        "not_applicable": sorted(na, key=lambda x: x["property_id"]),
        "notes": "One simulator binary (sim/, built against /repo's working tree). ./check <ID> <tier> rebuilds, runs, rewrites evidence/<ID>.json. Exit 0 held, 1 VIOLATION, 2 harness error. Known findings and fixed defects: known_findings.json.",
    }
    json.dump(m, open(os.path.join(ROOT, "MANIFEST.json"), "w"), indent=1)
    print("wrote MANIFEST.json with", len(checks), "checks,", len(na), "not claimed")

if __name__ == "__main__":
    main()
