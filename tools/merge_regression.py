#!/usr/bin/env python3
"""Merges seeded/REGRESSION-<slot>.txt (written by tools/regress_seeded.sh) into seeded/REGRESSION.md."""
import glob, re
rows=[]
for f in sorted(glob.glob('/verif/seeded/REGRESSION-*.txt')):
    for l in open(f):
        if l.startswith('DONE'): continue
        m=re.match(r'^(\S+) (C\d\d) (caught|MISSED) seed=(\d+) (.*?)\|(.*)$', l.strip())
        if m: rows.append(m.groups())
rows.sort(key=lambda r:int(re.match(r's(\d+)',r[0]).group(1)))
out=['# Seeded changes: regression run\n',
 'Every kept change applied in an isolated worktree and the quick check of the property it was written against run on it (`tools/regress_seeded.sh`, which uses `tools/try_mutant_iso.sh`), after the last changes to the generators and oracles. `caught` = the check exits 1 with a VIOLATION line.\n',
 '| change | property | result | seed | batch | first violation |','|---|---|---|---|---|---|']
for r in rows:
    out.append('| %s | %s | %s | %s | %s | %s |'%(r[0],r[1],r[2],r[3],r[4].strip(),r[5].strip().replace('|','/')))
c=sum(1 for r in rows if r[2]=='caught')
out.append('\n%d of %d caught.'%(c,len(rows)))
open('/verif/seeded/REGRESSION.md','w').write('\n'.join(out)+'\n')
print(c,len(rows))
