#!/bin/bash
# tools/run_sensitivity.sh <slot> <ids...>   e.g. run_sensitivity.sh 2 M01 M02
# Runs the checks the catalogue names for each sensitivity mutant (sensitivity/patches/<id>.diff)
# through tools/try_mutant_iso.sh in the given slot; appends one line per (mutant, check) to
# sensitivity/results-<slot>.txt. P* edits are property-preserving and must stay green.
cd "$(dirname "$0")/.."
SLOT="$1"; shift
declare -A MAP=(
 [M01]="C06" [M02]="C06" [M03]="C06" [M04]="C06 C29" [M05]="C06" [M06]="C07 C06" [M07]="C08 C06" [M08]="C07"
 [M09]="C07" [M10]="C31" [M11]="C31 C34" [M12]="C02 C31" [M13]="C02" [M14]="C02 C09" [M15]="C08 C09" [M16]="C08"
 [M17]="C09" [M18]="C09 C13" [M19]="C10" [M20]="C10" [M21]="C10" [M22]="C11" [M23]="C11 C25" [M24]="C12" [M25]="C12"
 [M26]="C13" [M27]="C15 C20" [M28]="C15" [M29]="C15" [M30]="C15" [M31]="C16" [M32]="C16 C17" [M33]="C16" [M34]="C17"
 [M35]="C17" [M36]="C18" [M37]="C18" [M38]="C18" [M39]="C19" [M40]="C19" [M41]="C20" [M42]="C20" [M43]="C21" [M44]="C22"
 [M45]="C29" [M46]="C29" [M47]="C28" [M48]="C28 C25" [M49]="C34" [M50]="C34" [M51]="C33" [M52]="C33" [M53]="C25 C31" [M54]="C25"
 [P01]="C08 C09" [P02]="C11 C25" [P03]="C12 C25" [P04]="C25 C28" [P05]="C16 C18" [P06]="C15 C16 C17" [P07]="C29 C28"
)
export VERIF_SEED="${VERIF_SEED:-1}"
for id in "$@"; do
  out=$(tools/try_mutant_iso.sh -n "$SLOT" sensitivity/patches/$id.diff ${MAP[$id]} 2>&1)
  echo "$out" | grep -E "^== " | while read -r line; do echo "$id $line" | cut -c1-200 >> sensitivity/results-$SLOT.txt; done
  echo "$out" | grep -E "^(patch does not apply|HARNESS-ERROR)" | head -2 | while read -r line; do echo "$id !! $line" >> sensitivity/results-$SLOT.txt; done
done
echo "DONE slot $SLOT" >> sensitivity/results-$SLOT.txt
