#!/bin/bash
# tools/confirm_mutant.sh <PROP>   (scratch worktree /tmp/mut-<PROP>, outputs /tmp/mut-<PROP>-out)
# Confirms a seeded change independently of the sub-agent that wrote it:
#   1. patch.diff applies to a clean checkout of the worktree and is the whole change
#   2. the existing suite passes with the change (demo moved aside)
#   3. the demo fails with the change and passes without it
# Prints one summary line per step; exit 0 only if all three hold.
set -u
P="$1"; WT="/tmp/mut-$P"; OUT="/tmp/mut-$P-out"
export CARGO_NET_OFFLINE=true
cd "$WT" || exit 2
demo=$(git status --porcelain | grep '^??' | awk '{print $2}' | grep -E "demo_" | head -1)
[ -z "$demo" ] && demo=$(git status --porcelain --untracked-files=all | grep '^??' | awk '{print $2}' | grep -E "demo_" | head -1)
[ -z "$demo" ] && { echo "no untracked demo file found in $WT"; exit 2; }
crate=$(echo "$demo" | sed -E 's#^crates/([^/]+)/.*#\1#')
case "$crate" in revm) pkg=revm;; interpreter) pkg=revm-interpreter;; primitives) pkg=revm-primitives;; precompile) pkg=revm-precompile;; *) pkg=revm;; esac
tname=$(basename "$demo" .rs)
feat=""; grep -q "optimism" "$OUT/run_demo.txt" 2>/dev/null && feat="--features optimism"
echo "demo=$demo pkg=$pkg test=$tname feat=$feat"
cp "$demo" /tmp/demo_keep_$P.rs
git checkout -q -- crates || exit 2
git apply --check "$OUT/patch.diff" || { echo "STEP1 FAIL: patch does not apply"; exit 1; }
git apply "$OUT/patch.diff"
echo "STEP1 ok: patch applies ($(git diff --stat -- crates | tail -1))"
mv "$demo" /tmp/demo_aside_$P.rs
s=$(cargo test --workspace --no-fail-fast --offline -j 8 2>&1 | grep -E "^test result" | awk '{p+=$4; f+=$6} END {print p" passed "f" failed"}')
mv /tmp/demo_aside_$P.rs "$demo"
echo "STEP2 suite with change: $s"
with=$(cargo test -p $pkg $feat --test $tname --offline -j 8 2>&1 | grep -E "^test result" | tail -1)
echo "STEP3a demo with change: $with"
git checkout -q -- crates
without=$(cargo test -p $pkg $feat --test $tname --offline -j 8 2>&1 | grep -E "^test result" | tail -1)
echo "STEP3b demo without change: $without"
git apply "$OUT/patch.diff"
ok=0
echo "$s" | grep -q " 0 failed" || ok=1
echo "$with" | grep -q "FAILED" || ok=1
echo "$without" | grep -q "test result: ok" || ok=1
[ $ok -eq 0 ] && echo "CONFIRMED $P" || echo "NOT CONFIRMED $P"
exit $ok
