#!/usr/bin/env python3
"""tools/keep_mutant.py <PROP> <seeded-id> <needs_to_manifest> <caught_by ; separated> [<ran ; separated>]
Copies /tmp/mut-<PROP>-out/{patch.diff,demo_*.rs,notes.md,run_demo.txt} to /verif/seeded/<id>/ and
writes meta.json from the confirmation log written by tools/confirm_mutant.sh."""
import sys, os, json, shutil, glob, subprocess
prop, sid, needs, caught = sys.argv[1:5]
ran = sys.argv[5].split(';') if len(sys.argv) > 5 else []
out = f'/tmp/mut-{prop}-out'
dst = f'/verif/seeded/{sid}'
os.makedirs(dst, exist_ok=True)
for f in ['patch.diff', 'notes.md', 'run_demo.txt'] + [os.path.basename(x) for x in glob.glob(out + '/demo_*.rs')]:
    if os.path.exists(f'{out}/{f}'):
        shutil.copy(f'{out}/{f}', f'{dst}/{f}')
log = open(f'{out}/confirm.log').read().splitlines()
def line(tag):
    return next((l.split(': ', 1)[1] if ': ' in l else l for l in log if l.startswith(tag)), 'n/a')
assert any(l.startswith('CONFIRMED') for l in log), 'not confirmed'
head = subprocess.check_output(['git', '-C', '/repo', 'rev-parse', '--short', 'HEAD']).decode().strip()
meta = {
    'id': sid,
    'breaks_property': prop,
    'origin': 'fresh sub-agent given only the property text and a scratch worktree of /repo (nothing from /verif)',
    'needs_to_manifest': needs,
    'confirmed': {
        'by': 'tools/confirm_mutant.sh (scratch worktree, independent of the sub-agent\'s own runs)',
        'existing_suite_with_change': 'cargo test --workspace --no-fail-fast --offline: ' + line('STEP2'),
        'demo_with_change': line('STEP3a'),
        'demo_without_change': line('STEP3b'),
        'patch_applies_to': f'/repo at {head} (git apply)',
    },
    'ran': ran or [f'tools/try_mutant.sh seeded/{sid}/patch.diff <IDs>  (applies to /repo, runs ./check <ID> quick at VERIF_SEED=1, restores /repo)'],
    'caught_by': [c.strip() for c in caught.split(';') if c.strip()],
}
json.dump(meta, open(f'{dst}/meta.json', 'w'), indent=2)
print('kept', dst, os.listdir(dst))
